#!/usr/bin/env python3
import json,glob,sys
for f in sorted(glob.glob('/verif/.work/mutants/*.json')):
    d=json.load(open(f))
    ok = d.get('demo_clean',{}).get('rc')==0 and d.get('suite_mutated',{}).get('rc')==0 and d.get('demo_mutated',{}).get('rc') not in (0,None)
    own=d['name'][:3]
    alarms={k:v['violations'] for k,v in d.get('checks',{}).items() if v['rc']==1}
    inc=[k for k,v in d.get('checks',{}).items() if v['rc'] not in (0,1)]
    print('%-7s %-8s own:%-4s alarms:%s %s' % (d['name'], 'VALID' if ok else 'INVALID', 'HIT' if own in alarms else 'MISS', alarms, ('inconclusive:%s'%inc) if inc else ''))
    if not ok: print('    ', d.get('demo_clean'), d.get('suite_mutated'), d.get('demo_mutated'), d.get('apply_out','')[:200])
