#!/bin/sh
# runs every thorough check against /repo and keeps a copy of its evidence in evidence_thorough/
cd /verif
ED=${EVDIR:-evidence_thorough}
mkdir -p $ED
for c in C01 C02 C03 C04 C05 C06 C07 C08 C09 C11 C12 C13 C14 C15 C17 C18 C19 C20 C16 C10; do
  /usr/bin/time -f "$c %es" ./check $c thorough 2>&1 | grep -E "thorough seed|VIOLATION|INCONCL|KNOWN|what:|^C[0-9]+ [0-9]" | cut -c1-300
  cp evidence/$c.json $ED/$c.json
done
echo thorough done
