#!/bin/sh
# re-evaluates every seeded change against the current checks (4 at a time); then refresh meta.json + kill matrix
cd /verif
ls seeded | grep -v README | xargs -P ${PAR:-4} -I{} sh -c 'python3 tools/mutant.py eval {} seeded/{}/patch.diff --demo seeded/{}/demo.rs > .work/mut-{}.log 2>&1'
python3 tools/seed_import.py > /dev/null
python3 tools/killmatrix.py > /dev/null
echo reeval done
