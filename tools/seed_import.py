#!/usr/bin/env python3
"""Copy confirmed seeded changes into /verif/seeded/<name>/ (patch.diff, demo.rs, notes.md, meta.json)
from the sub-agents' scratch worktrees and the evaluation records in .work/mutants/."""
import glob
import json
import os
import re
import shutil
import sys

V = os.path.dirname(os.path.dirname(os.path.abspath(__file__)))
PROPS = {json.loads(l)["id"]: json.loads(l) for l in open(os.path.join(V, "properties.jsonl"))}


def section(md, n):
    """the part of MUTATIONS.md about mutation n (best effort)"""
    parts = re.split(r"(?m)^#+ .*[Mm]utation\s*%d.*$" % n, md)
    if len(parts) < 2:
        return md
    rest = parts[1]
    nxt = re.search(r"(?m)^#+ .*[Mm]utation\s*%d.*$" % (3 - n), rest)
    return rest[: nxt.start()] if nxt else rest


def main():
    for f in sorted(glob.glob(os.path.join(V, ".work", "mutants", "*.json"))):
        d = json.load(open(f))
        name = d["name"]
        ok = d.get("demo_clean", {}).get("rc") == 0 and d.get("suite_mutated", {}).get("rc") == 0 and d.get("demo_mutated", {}).get("rc") not in (0, None)
        if not ok:
            print("skip (not confirmed):", name)
            continue
        prop = name[:3]
        n = int(name.rsplit("m", 1)[1])
        src = os.path.dirname(d["patch"])
        out = os.path.join(V, "seeded", name)
        os.makedirs(out, exist_ok=True)
        if os.path.exists(d["patch"]) and os.path.abspath(d["patch"]) != os.path.abspath(os.path.join(out, "patch.diff")):
            shutil.copy(d["patch"], os.path.join(out, "patch.diff"))
        elif not os.path.exists(os.path.join(out, "patch.diff")):
            print("skip (patch source gone):", name)
            continue
        if d.get("demo") and os.path.exists(d["demo"]) and os.path.abspath(d["demo"]) != os.path.abspath(os.path.join(out, "demo.rs")):
            shutil.copy(d["demo"], os.path.join(out, "demo.rs"))
        md = ""
        mp = os.path.join(src, "MUTATIONS.md")
        if os.path.exists(mp):
            md = open(mp).read()
            with open(os.path.join(out, "notes.md"), "w") as fh:
                fh.write("(written by the sub-agent that produced the change; it saw only the property text)\n\n" + section(md, n).strip() + "\n")
        alarms = {k: v["violations"] for k, v in d.get("checks", {}).items() if v["rc"] == 1}
        meta = {
            "id": name,
            "breaks_property": prop,
            "property_title": PROPS[prop]["title"],
            "origin": "fresh sub-agent given only the property text and a scratch worktree of /repo",
            "needs_to_manifest": "see notes.md (trigger conditions as stated by the author of the change)",
            "confirmed": {
                "applies_to_repo_head": d.get("apply_rc") == 0,
                "existing_suite_with_change": d.get("suite_mutated"),
                "demo_on_clean_tree": d.get("demo_clean"),
                "demo_with_change": d.get("demo_mutated"),
                "how": "tools/mutant.py: scratch worktree under /var/tmp, `cargo test --workspace --no-fail-fast --offline` with the change, demo as tests/<name>.rs with --features ring-resolver,use-p256,use-xchacha20poly1305,verif-hooks with and without it; then every check's quick command with VERIF_REPO=<scratch>",
            },
            "checks_run": {k: {"exit": v["rc"], "violation_signatures": v["violations"], "first": v["first"][:1]} for k, v in d.get("checks", {}).items()},
            "caught_by": sorted(alarms),
            "caught_by_own_check": prop in alarms,
            "evaluated": d.get("started"),
        }
        with open(os.path.join(out, "meta.json"), "w") as fh:
            json.dump(meta, fh, indent=1)
        print("imported", name, "caught by", sorted(alarms))


if __name__ == "__main__":
    main()
