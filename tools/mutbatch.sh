#!/bin/sh
# usage: [MUTDIR=/tmp/mut2 TAG=r2] mutbatch.sh "C01:1 C01:2 ..." [checks]   - evaluates mutants 3 at a time
cd /verif
CH=${2:-all}
export MUTDIR=${MUTDIR:-/tmp/mut} TAG=${TAG:-}
echo "$1" | tr ' ' '\n' | xargs -P ${PAR:-3} -I{} sh -c 'id=$(echo {} | cut -d: -f1); n=$(echo {} | cut -d: -f2); python3 tools/mutant.py eval ${id}${TAG}m$n $MUTDIR/$id/mutation$n.diff --demo $MUTDIR/$id/demo$n.rs --checks '"$CH"' > .work/mut-${id}${TAG}m$n.log 2>&1'
echo batch done
