#!/bin/sh
# usage: mutbatch.sh "C01:1 C01:2 ..." [checks]   - evaluates mutants 3 at a time
cd /verif
CH=${2:-all}
echo "$1" | tr ' ' '\n' | xargs -P 3 -I{} sh -c 'id=$(echo {} | cut -d: -f1); n=$(echo {} | cut -d: -f2); python3 tools/mutant.py eval ${id}m$n /tmp/mut/$id/mutation$n.diff --demo /tmp/mut/$id/demo$n.rs --checks '"$CH"' > .work/mut-${id}m$n.log 2>&1'
echo batch done
