#!/usr/bin/env python3
"""Regenerates /verif/MANIFEST.json from the table below (kept in one place so it stays valid)."""
import json
import os

V = os.path.dirname(os.path.dirname(os.path.abspath(__file__)))
IDS = [json.loads(l)["id"] for l in open(os.path.join(V, "properties.jsonl"))]

MODEL = "independent Python model of Noise rev 34 (noiseref), validated on RFC vectors and 472 third-party cacophony vectors"
DRIVER = "driver executes the real snow API built from /repo's working tree (feature verif-hooks on); recording CryptoResolver and panic hook observe from inside"

CHECKS = {
    "C01": ("exploration", "runtime monitoring: lock-step reference-model oracle (byte-exact) over honest sessions, model-as-peer interop, third-party vectors", "6/C01",
            "every produced handshake/transport message, handshake hash and payload-encrypted flag of each explored session compared byte-for-byte with an independent spec model that consumes the logged RNG draws (honest sessions over all 13 344 names with rekeys and late PSKs, sessions with injected failing calls and retries, the model playing the peer, 472 third-party vectors)", MODEL),
    "C02": ("exploration", "runtime monitoring: agreement oracle over recorded honest histories (completion count, payload and hash equality)", "6/C02",
            "each explored honest session (every name; library-generated keys, OS randomness, PSKs from the builder or set late, payload buffers of every legal size; hfs+Kyber names in thorough) finished after exactly the pattern's message count with all payloads delivered intact and equal hashes", "message counts from the independent pattern table; " + DRIVER),
    "C06": ("fault_enumeration", "runtime monitoring: offline trace checker over recorded AEAD (key, nonce, ad, plaintext, keystream prefix), REKEY and RNG events across fault histories", "6/C06",
            "across enumerated failure causes/positions with retries, conversions and rekeys, no (key, nonce) pair encrypted two different inputs (REKEY counted under the nonce it is observed to consume), no two nonces of one key yielded the same keystream, and every ephemeral was drawn inside its write", DRIVER),
    "C07": ("fault_enumeration", "runtime monitoring: differential twin-session oracle + before/after observation diff across injected failing calls", "6/C07",
            "for every injected failure (cause x token boundary x side), observations were unchanged, the correct step then succeeded and all later outputs equalled those of a fault-free twin", DRIVER),
    "C10": ("exploration", "runtime monitoring: panic hook + catch_unwind + subprocess watchdog under hostile lengths aimed at model-computed boundaries; ASan/valgrind/Miri in thorough", "6/C10",
            "no explored call panicked, aborted or hung (except listed known findings); sanitizer builds reported nothing on the hostile-length workload", "a panic, driver death or reproducible hang is the refuting observation; non-termination restated as bounded progress"),
    "C14": ("exploration", "runtime monitoring: length-arithmetic oracle (model field layout) at buffer / 65535 boundaries, one boundary call per fresh session", "6/C14",
            "every boundary call returned exactly the predicted length or the demanded Error::Input / failure", MODEL),
    "C03": ("fault_enumeration", "runtime monitoring: fault enumeration over in-transit alterations of handshake messages, history oracle from the model's field layout", "6/C03",
            "every enumerated alteration (all bit flips of fixed fields, all truncations, extensions, edits, substitutions) of every message was rejected by the read when an encrypted field is involved, and otherwise never led to both parties finishing without error", "which fields are encrypted follows from the independent token table; another initiator's message 0 is a valid initiation (inherent to Noise) and is judged only for later detection"),
    "C04": ("fault_enumeration", "runtime monitoring: fault enumeration over hostile deliveries to transport reads (one per fresh session), accept-only-genuine oracle", "6/C04",
            "every hostile delivery (all bit flips, truncations, extensions, reflection, cross-session, cross-direction, replay, wrong nonce, model-forged over-long messages, cut tag-only messages, objects converted too early) was refused and every genuine control accepted with its payload", "genuine = the register the peer's write produced, for this receiver and nonce (known by construction)"),
    "C05": ("fault_enumeration", "runtime monitoring: delivery-schedule enumeration checked against a sequential model of the receiving nonce", "6/C05",
            "for every enumerated schedule (exhaustive to the length bound, random longer) a delivery was accepted iff it was the next expected message and receiving_nonce() equalled the model after every op", "unique payload tags make the history unambiguous"),
    "C08": ("exploration", "runtime monitoring: history oracle over sessions whose peers differ in exactly one context item", "6/C08",
            "no explored pair with differing name / prologue / PSK / pre-shared static key both finished without error, and no transport message was accepted", "only agreement on the context is varied; no crypto model needed"),
    "C09": ("exploration", "runtime monitoring: counter model on nonce getters after every op + trace rule on the nonce handed to the AEAD (recording resolver), boundary placement through the hook", "6/C09",
            "getters equalled the model after every explored op, calls at 2^64-1 failed with State(Exhausted) and moved nothing, no enc/dec event carried 2^64-1", "stateful sender placed at the boundary via verif_set_sending_nonce"),
    "C11": ("exploration", "runtime monitoring: call-sequence enumeration against a position/turn/phase automaton; indicators compared after every op", "6/C11",
            "for every enumerated call sequence (exhaustive to the depth bound from every handshake position on 8 pattern shapes x both roles, random deeper on all patterns) results and turn/finished indicators equalled the automaton and the session still completed", "automaton uses only message count and one-way flag from the independent pattern table"),
    "C12": ("exploration", "runtime monitoring: complete enumeration of builder configurations judged by a predicate derived from the token table", "6/C12",
            "every enumerated (pattern, role, key subset, modifiers, resolver) build returned exactly Ok / the applicable error kind; built pairs never hit MissingKeyMaterial; an omitted PSK was reported as MissingPsk at the message needing it", "finite space enumerated completely (exhaustive: true)"),
    "C13": ("exploration", "runtime monitoring: independent grammar recogniser as oracle over the full valid product, all single-edit mutants of sampled names, traps and random strings", "6/C13",
            "every explored string was accepted iff grammatical, parsed fields named the components, the name was verbatim and every rejection was Error::Pattern", "psk numerals beyond psk0..psk9 / non-canonical are 'unspecified' and only field-checked"),
    "C15": ("exploration", "runtime monitoring: sequence enumeration over rekey/message operations against a per-direction (key, nonce) model with the model's own REKEY", "6/C15",
            "every message after a rekey was byte-identical to the model's, deliveries were accepted iff keys agreed, nonces were untouched by rekeys (exhaustive to the depth bound, random deeper)", "initial keys read from the recorded Cipher::set calls; REKEY/AEAD are the model's"),
    "C16": ("exploration", "runtime monitoring: pure-function oracle per op over sequential orders and multi-threaded stress on a shared object; stateful twin; TSan and Miri in thorough", "6/C16",
            "every stateless op in every explored order / thread equalled E(k, n, p) resp. its inverse and the stateful twin's n-th message; race detectors reported nothing (thorough)", "interleavings are sampled (distinct completion orders counted); sanitizers cover the pure-Rust back end"),
    "C18": ("exploration", "runtime monitoring: differential against independent primitives (standards' test vectors, OpenSSL/libsodium cross-check) on the resolver objects", "6/C18",
            "every explored hash/HMAC/HKDF/AEAD/REKEY/DH output of both back ends equalled the model; decrypt rejected every non-genuine input; generated key pairs were consistent and distinct", "objects driven as snow drives them"),
    "C19": ("exploration", "runtime monitoring: output-buffer inspection after failed authenticated reads against the known random payload and the static keys the message carried", "6/C19",
            "no explored rejected read (cipher x back end x path x alteration x buffer size) left >= 16 consecutive bytes of the payload or of a decrypted static key in the caller's buffer", "payloads are >= 32 pseudo-random bytes"),
    "C20": ("exploration", "runtime monitoring: differential execution of one scripted scenario under all 9 back-end assignments + exhaustive fallback truth table on self-identifying stub resolvers", "6/C20",
            "all 9 assignments produced identical bytes and observations at every step and completed; FallbackResolver returned exactly the first member providing each primitive", "scripted RNG identical across assignments"),
    "C17": ("exploration", "runtime monitoring: getter snapshot after every op vs. peer's model-computed public key and the token table", "6/C17",
            "get_remote_static() equalled the expectation in every snapshot on all three state types for every pattern x psk variant x DH x role", "public keys recomputed by the model's own X25519/P-256"),
}


def main():
    checks = []
    for pid in IDS:
        if pid not in CHECKS:
            continue
        level, technique, ref, text, note = CHECKS[pid]
        checks.append({
            "property_id": pid,
            "quick_cmd": "./check %s quick" % pid,
            "thorough_cmd": "./check %s thorough" % pid,
            "evidence_file": "/verif/evidence/%s.json" % pid,
            "replay_cmd_template": "./check %s --replay {path}" % pid,
            "engine": "vmon+driver",
            "level_claimed": {"category": level, "text": "held on the executions explored: " + text, "design_ref": "DESIGN.md section " + ref},
            "level_note": note,
            "technique": technique,
        })
    m = {
        "version": 1,
        "setup_cmd": "./setup.sh",
        "hooks": {
            "guard": "cargo feature verif-hooks (off by default)",
            "enable": "the driver crate depends on snow with features = [\"verif-hooks\", ...]; checks rebuild it from /repo's working tree",
            "baseline_off_cmd": "cd /repo && cargo test --workspace --no-fail-fast --offline",
            "source_commits": ["42e6d89"],
            "fix_commits": ["a2a61f4", "ea01672", "fae645a", "16ed79d", "fde3ce7", "93a1dd8"],
            "add_only": True,
        },
        "engines": [
            {"name": "driver", "path": "/verif/driver", "serves_properties": IDS, "kind_free_text": "Rust script interpreter over the real snow API with recording resolver, panic monitor, thread runner"},
            {"name": "noiseref", "path": "/verif/noiseref", "serves_properties": ["C01", "C06", "C10", "C14", "C15", "C16", "C17", "C18"], "kind_free_text": "independent Python reference model and primitives (oracle)"},
            {"name": "vmon", "path": "/verif/vmon", "serves_properties": IDS, "kind_free_text": "orchestrator, shadow, generators, trace/history checkers, verdicts, evidence"},
        ],
        "checks": checks,
        "notes": "Runtime monitoring only: every verdict comes from an oracle observing executions of the real crate built from /repo's working tree. Verdicts are three-valued (exit 0 held / 1 violation / 2 inconclusive). Known findings: /verif/known_findings.json (one open: F6). Sensitivity: 170 seeded changes in /verif/seeded (kill matrix in seeded/README.md, DESIGN.md section 13).",
        "not_applicable": [{"property_id": i, "reason": "check not built yet (work in progress, see DESIGN.md section 11)"} for i in IDS if i not in CHECKS],
    }
    with open(os.path.join(V, "MANIFEST.json"), "w") as f:
        json.dump(m, f, indent=1)
    print("MANIFEST.json: %d checks, %d not yet claimed" % (len(checks), len(m["not_applicable"])))


if __name__ == "__main__":
    main()
