#!/usr/bin/env python3
"""Regenerates /verif/MANIFEST.json from the table below (kept in one place so it stays valid)."""
import json
import os

V = os.path.dirname(os.path.dirname(os.path.abspath(__file__)))
IDS = [json.loads(l)["id"] for l in open(os.path.join(V, "properties.jsonl"))]

MODEL = "independent Python model of Noise rev 34 (noiseref), validated on RFC vectors and 472 third-party cacophony vectors"
DRIVER = "driver executes the real snow API built from /repo's working tree (feature verif-hooks on); recording CryptoResolver and panic hook observe from inside"

CHECKS = {
    "C01": ("exploration", "runtime monitoring: lock-step reference-model oracle (byte-exact) over honest sessions, model-as-peer interop, third-party vectors", "6/C01",
            "every produced handshake/transport message, handshake hash and payload-encrypted flag of each explored session compared byte-for-byte with an independent spec model that consumes the logged RNG draws; thorough enumerates all 13 344 names", MODEL),
    "C02": ("exploration", "runtime monitoring: agreement oracle over recorded honest histories (completion count, payload and hash equality)", "6/C02",
            "each explored honest session (library-generated keys, OS randomness) finished after exactly the pattern's message count with all payloads delivered intact and equal hashes", "message counts from the independent pattern table; " + DRIVER),
    "C06": ("fault_enumeration", "runtime monitoring: offline trace checker over recorded AEAD (key, nonce, ad, plaintext) and RNG events across fault histories", "6/C06",
            "across enumerated failure causes/positions with retries, conversions and rekeys, no (key, nonce) pair encrypted two different inputs and every ephemeral was drawn inside its write", DRIVER),
    "C07": ("fault_enumeration", "runtime monitoring: differential twin-session oracle + before/after observation diff across injected failing calls", "6/C07",
            "for every injected failure (cause x token boundary x side), observations were unchanged, the correct step then succeeded and all later outputs equalled those of a fault-free twin", DRIVER),
    "C10": ("exploration", "runtime monitoring: panic hook + catch_unwind + subprocess watchdog under hostile lengths aimed at model-computed boundaries; ASan/valgrind/Miri in thorough", "6/C10",
            "no explored call panicked, aborted or hung (except listed known findings); sanitizer builds reported nothing on the hostile-length workload", "a panic, driver death or reproducible hang is the refuting observation; non-termination restated as bounded progress"),
    "C14": ("exploration", "runtime monitoring: length-arithmetic oracle (model field layout) at buffer / 65535 boundaries, one boundary call per fresh session", "6/C14",
            "every boundary call returned exactly the predicted length or the demanded Error::Input / failure", MODEL),
    "C17": ("exploration", "runtime monitoring: getter snapshot after every op vs. peer's model-computed public key and the token table", "6/C17",
            "get_remote_static() equalled the expectation in every snapshot on all three state types for every pattern x psk variant x DH x role", "public keys recomputed by the model's own X25519/P-256"),
}


def main():
    checks = []
    for pid in IDS:
        if pid not in CHECKS:
            continue
        level, technique, ref, text, note = CHECKS[pid]
        checks.append({
            "property_id": pid,
            "quick_cmd": "./check %s quick" % pid,
            "thorough_cmd": "./check %s thorough" % pid,
            "evidence_file": "/verif/evidence/%s.json" % pid,
            "replay_cmd_template": "./check %s --replay {path}" % pid,
            "engine": "vmon+driver",
            "level_claimed": {"category": level, "text": "held on the executions explored: " + text, "design_ref": "DESIGN.md section " + ref},
            "level_note": note,
            "technique": technique,
        })
    m = {
        "version": 1,
        "setup_cmd": "./setup.sh",
        "hooks": {
            "guard": "cargo feature verif-hooks (off by default)",
            "enable": "the driver crate depends on snow with features = [\"verif-hooks\", ...]; checks rebuild it from /repo's working tree",
            "baseline_off_cmd": "cd /repo && cargo test --workspace --no-fail-fast --offline",
            "source_commits": ["42e6d89"],
            "add_only": True,
        },
        "engines": [
            {"name": "driver", "path": "/verif/driver", "serves_properties": IDS, "kind_free_text": "Rust script interpreter over the real snow API with recording resolver, panic monitor, thread runner"},
            {"name": "noiseref", "path": "/verif/noiseref", "serves_properties": ["C01", "C06", "C10", "C14", "C15", "C16", "C17", "C18"], "kind_free_text": "independent Python reference model and primitives (oracle)"},
            {"name": "vmon", "path": "/verif/vmon", "serves_properties": IDS, "kind_free_text": "orchestrator, shadow, generators, trace/history checkers, verdicts, evidence"},
        ],
        "checks": checks,
        "notes": "Runtime monitoring only. Verdicts are three-valued (exit 0 held / 1 violation / 2 inconclusive). Known findings: /verif/known_findings.json.",
        "not_applicable": [{"property_id": i, "reason": "check not built yet (work in progress, see DESIGN.md section 11)"} for i in IDS if i not in CHECKS],
    }
    with open(os.path.join(V, "MANIFEST.json"), "w") as f:
        json.dump(m, f, indent=1)
    print("MANIFEST.json: %d checks, %d not yet claimed" % (len(checks), len(m["not_applicable"])))


if __name__ == "__main__":
    main()
