#!/usr/bin/env python3
"""Self-test of the subprocess watchdog and death isolation (development-time, ~70 s): a batch of five
cases in which one aborts the driver and one hangs; the other three must complete and the two
culprits must be isolated and confirmed when re-run alone."""
import os
import sys

sys.path.insert(0, os.path.dirname(os.path.dirname(os.path.abspath(__file__))))
from vmon import runner  # noqa: E402
from vmon.script import Case  # noqa: E402


def mk(i, extra=None):
    c = Case("c%d" % i)
    c.op("parse", name="4e6f697365")
    if extra:
        c.lines.append(extra)
    return c


b = runner.build_driver("A")
cases = [mk(0), mk(1, "debug_abort"), mk(2), mk(3, "debug_hang"), mk(4)]
ev, deaths = runner.run_cases(b, cases, os.path.join(runner.WORK, "selftest"), "t", timeout=8)
got = (sorted(ev.keys()), [(d["case"], d["confirmed"]) for d in deaths])
print(got)
sys.exit(0 if got == (["c0", "c2", "c4"], [("c1", True), ("c3", True)]) else 1)
