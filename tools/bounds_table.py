#!/usr/bin/env python3
"""Prints a markdown table of what the last runs covered (from evidence/ and evidence_thorough/)."""
import json
import os
import sys

V = os.path.dirname(os.path.dirname(os.path.abspath(__file__)))


def row(path):
    e = json.load(open(path))
    c = e["coverage"]
    obs = c.get("observed", {})
    top = sorted(((v, k) for k, v in obs.items() if not k.startswith(("kind_", "err_", "rejected_", "calls_", "hostile_", "failed_", "compared_", "ended_"))), reverse=True)[:4]
    dist = c.get("distinct_observed", {})
    return "| %s | %s | %d | %d | %d | %s%s | %.0f |" % (
        e["property_id"], e["tier"], c.get("cases_executed", c["evaluations"]), c["evaluations"], c["distinct_nontrivial"],
        ", ".join("%s=%d" % (k, v) for v, k in top), ("; distinct " + ", ".join("%s=%d" % kv for kv in dist.items())) if dist else "", e["wall_s"])


def main():
    print("| property | tier | driver cases | evaluations | distinct non-trivial | main observation counts | wall s |")
    print("|---|---|---|---|---|---|---|")
    for d in ("evidence", "evidence_thorough"):
        p = os.path.join(V, d)
        if not os.path.isdir(p):
            continue
        for f in sorted(os.listdir(p)):
            if f.endswith(".json"):
                print(row(os.path.join(p, f)))


if __name__ == "__main__":
    main()
