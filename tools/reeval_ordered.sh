#!/bin/sh
# re-evaluates the seeded changes that have no evaluation record newer than $SINCE ("YYYY-MM-DD HH:MM"), newest round first
cd /verif
SINCE=${SINCE:-$(cat .work/reeval2.start)}
python3 - "$SINCE" <<'PY' > .work/reeval_todo.txt
import json, os, sys
since = sys.argv[1]
names = [n for n in sorted(os.listdir("seeded")) if n != "README.md"]
def done(n):
    try:
        return json.load(open(".work/mutants/%s.json" % n)).get("started", "") >= since
    except Exception:
        return False
order = {"r4": 0, "r3b": 1, "r3": 2, "r2": 3}
def rank(n):
    for k, v in order.items():
        if n[3:].startswith(k + "m"):
            return v
    return 4
todo = [n for n in names if not done(n)]
todo.sort(key=lambda n: (rank(n), n))
print("\n".join(todo))
PY
wc -l < .work/reeval_todo.txt
xargs -a .work/reeval_todo.txt -P ${PAR:-5} -I{} sh -c 'python3 tools/mutant.py eval {} seeded/{}/patch.diff --demo seeded/{}/demo.rs > .work/mut-{}.log 2>&1'
python3 tools/seed_import.py > /dev/null
python3 tools/killmatrix.py > /dev/null
echo reeval done
