#!/usr/bin/env python3
"""Builds /verif/seeded/README.md (the kill matrix) from seeded/*/meta.json."""
import glob
import json
import os
import re

V = os.path.dirname(os.path.dirname(os.path.abspath(__file__)))


def first_sentence(path):
    try:
        t = open(path).read()
    except OSError:
        return ""
    t = re.sub(r"\(written by the sub-agent[^\n]*\)\s*", "", t)
    t = re.sub(r"[`*#>]", "", t)
    t = " ".join(t.split())
    return t[:230]


def main():
    rows = []
    for f in sorted(glob.glob(os.path.join(V, "seeded", "*", "meta.json"))):
        m = json.load(open(f))
        d = os.path.dirname(f)
        others = [c for c in m["caught_by"] if c != m["breaks_property"]]
        rows.append("| %s | %s | %s | %s | %s |" % (m["id"], m["breaks_property"], "yes" if m["caught_by_own_check"] else "**no**", ", ".join(others) or "-", first_sentence(os.path.join(d, "notes.md"))))
    n = len(rows)
    own = sum(1 for r in rows if "| yes |" in r)
    out = ["# Seeded changes (sensitivity validation)", "",
           "Each directory holds one change to mcginty/snow written by a fresh sub-agent that saw only the text of one property and its own scratch",
           "worktree (nothing from /verif): `patch.diff`, `demo.rs` (fails with the change, passes without), `notes.md` (the author's account of what is",
           "needed for it to manifest) and `meta.json` (what was confirmed and which checks raised the alarm). Every change compiles, passes the repository's",
           "own 59 tests, and was confirmed in a scratch worktree by `tools/mutant.py`; none was ever committed to /repo.", "",
           "%d changes; %d caught by the quick tier of the check of the property they were written against. 'also alarmed' lists other checks whose own" % (n, own),
           "property the change breaks as well (each was looked at: see DESIGN.md section 13).", "",
           "| id | written against | caught by its own check (quick) | also alarmed | what it is (author's words, truncated) |", "|---|---|---|---|---|"] + rows
    with open(os.path.join(V, "seeded", "README.md"), "w") as fh:
        out.append("")
        out.append("Not caught, and deliberately so: **C11r4m2** makes a one-way responder's transport write with an over-long payload answer `Input` instead of "
                   "`State(OneWay)`. Two documented errors apply to that call and no precedence is documented (the unchanged tree itself answers `Input` "
                   "before the turn error for an out-of-turn over-long handshake read); C11 demands the state error for out-of-phase calls that are "
                   "otherwise well-formed. See DESIGN.md section 13, round 4.")
        out.append("")
        out.append("Inconclusive results under a seeded change (exit 2) occur where the change removes the check's own controls (C04 on C02r3m1, C05r2m2, C16r2m2: "
                   "the genuine 65535-byte control message is no longer accepted); they are neither alarms nor misses.")
        fh.write("\n".join(out) + "\n")
    print("\n".join(out[-(n + 2):]))


if __name__ == "__main__":
    main()
