#!/usr/bin/env python3
"""Development-time sensitivity validation (not a registered check): apply a seeded change to a
scratch copy of /repo (never to /repo itself), confirm it compiles, passes the repository's own
tests and that its demonstration fails with / passes without the change, then run checks against
the scratch copy via VERIF_REPO and record which ones raise the alarm.

usage: mutant.py eval <name> <patch.diff> [--demo demo.rs] [--checks C01,C07|all] [--tier quick] [--keep]"""
import argparse
import hashlib
import json
import os
import re
import shutil
import subprocess
import sys
import time

V = os.path.dirname(os.path.dirname(os.path.abspath(__file__)))
FEATURES = "ring-resolver,use-p256,use-xchacha20poly1305,verif-hooks"
ALL = ["C%02d" % i for i in range(1, 21)]


def sh(cmd, cwd=None, env=None, timeout=3600):
    p = subprocess.run(cmd, cwd=cwd, env=env, shell=isinstance(cmd, str), stdout=subprocess.PIPE, stderr=subprocess.STDOUT, text=True, timeout=timeout)
    return p.returncode, p.stdout


def cargo_test(wt, extra):
    env = dict(os.environ, CARGO_NET_OFFLINE="true")
    rc, out = sh("cargo test --offline %s 2>&1" % extra, cwd=wt, env=env)
    passed = sum(int(x) for x in re.findall(r"test result: \w+\. (\d+) passed", out))
    failed = sum(int(x) for x in re.findall(r"test result: \w+\. \d+ passed; (\d+) failed", out))
    return rc, passed, failed, out


def main():
    ap = argparse.ArgumentParser()
    ap.add_argument("cmd")
    ap.add_argument("name")
    ap.add_argument("patch")
    ap.add_argument("--demo")
    ap.add_argument("--checks", default="all")
    ap.add_argument("--tier", default="quick")
    ap.add_argument("--keep", action="store_true")
    ap.add_argument("--seed", default="0")
    a = ap.parse_args()
    wt = "/var/tmp/mw-" + a.name
    res = {"name": a.name, "patch": os.path.abspath(a.patch), "demo": a.demo, "started": time.strftime("%F %T")}
    sh("git -C /repo worktree remove --force %s" % wt)
    shutil.rmtree(wt, ignore_errors=True)
    rc, out = sh("git -C /repo worktree add -q --detach %s HEAD" % wt)
    if rc:
        print(out)
        return 2
    shutil.copy("/repo/Cargo.lock", wt)
    tag = hashlib.sha256(wt.encode()).hexdigest()[:10]
    try:
        demo_name = None
        if a.demo:
            demo_name = "vdemo_" + re.sub(r"\W", "_", a.name)
            shutil.copy(a.demo, os.path.join(wt, "tests", demo_name + ".rs"))
            rc, p, f, out = cargo_test(wt, "--features %s --test %s" % (FEATURES, demo_name))
            res["demo_clean"] = {"rc": rc, "passed": p, "failed": f}
            if rc != 0:
                res["demo_clean"]["tail"] = out[-1500:]
        rc, out = sh("git apply %s" % os.path.abspath(a.patch), cwd=wt)
        res["apply_rc"] = rc
        if rc:
            res["apply_out"] = out[-800:]
            print(json.dumps(res, indent=1))
            return 2
        if a.demo:
            os.rename(os.path.join(wt, "tests", demo_name + ".rs"), os.path.join(wt, demo_name + ".rs.off"))
        rc, p, f, out = cargo_test(wt, "--workspace --no-fail-fast")
        res["suite_mutated"] = {"rc": rc, "passed": p, "failed": f}
        if rc != 0:
            res["suite_mutated"]["tail"] = out[-1500:]
        if a.demo:
            os.rename(os.path.join(wt, demo_name + ".rs.off"), os.path.join(wt, "tests", demo_name + ".rs"))
            rc, p, f, out = cargo_test(wt, "--features %s --test %s" % (FEATURES, demo_name))
            res["demo_mutated"] = {"rc": rc, "passed": p, "failed": f}
            os.unlink(os.path.join(wt, "tests", demo_name + ".rs"))
        checks = ALL if a.checks == "all" else a.checks.split(",")
        res["checks"] = {}
        env = dict(os.environ, VERIF_REPO=wt, VERIF_SEED=a.seed)
        for cid in checks:
            t0 = time.time()
            rc, out = sh([os.path.join(V, "check"), cid, a.tier], cwd=V, env=env, timeout=7200)
            viol = [l for l in out.splitlines() if l.startswith("VIOLATION")]
            what = [l.strip()[:300] for l in out.splitlines() if l.strip().startswith("what:")]
            res["checks"][cid] = {"rc": rc, "violations": len(viol), "first": what[:2], "wall_s": round(time.time() - t0, 1), "last": out.strip().splitlines()[-1][:200] if out.strip() else ""}
            print("%s %s rc=%d viol=%d %.0fs" % (a.name, cid, rc, len(viol), time.time() - t0), flush=True)
    finally:
        if not a.keep:
            sh("git -C /repo worktree remove --force %s" % wt)
            shutil.rmtree(wt, ignore_errors=True)
            for d in os.listdir(os.path.join(V, ".target")):
                if d.endswith("-" + tag):
                    shutil.rmtree(os.path.join(V, ".target", d), ignore_errors=True)
            shutil.rmtree(os.path.join(V, ".work", "drv-" + tag), ignore_errors=True)
            shutil.rmtree(os.path.join(V, ".work", "alt-" + tag), ignore_errors=True)
    os.makedirs(os.path.join(V, ".work", "mutants"), exist_ok=True)
    with open(os.path.join(V, ".work", "mutants", a.name + ".json"), "w") as f:
        json.dump(res, f, indent=1)
    print(json.dumps({k: v for k, v in res.items() if k != "checks"}, indent=1))
    print({k: (v["rc"], v["violations"]) for k, v in res.get("checks", {}).items()})
    return 0


if __name__ == "__main__":
    sys.exit(main())
