#!/usr/bin/env python3
"""summary of the evaluation records in .work/mutants started at or after a given time (YYYY-MM-DD HH:MM)"""
import glob, json, os, sys
V = os.path.dirname(os.path.dirname(os.path.abspath(__file__)))
since = sys.argv[1] if len(sys.argv) > 1 else ""
n = 0
for f in sorted(glob.glob(os.path.join(V, ".work", "mutants", "*.json"))):
    d = json.load(open(f))
    if d.get("started", "") < since:
        continue
    n += 1
    name = d["name"]
    ch = d.get("checks", {})
    al = {k: v["violations"] for k, v in ch.items() if v["rc"] == 1}
    inc = [k for k, v in ch.items() if v["rc"] not in (0, 1)]
    ok = d.get("demo_clean", {}).get("rc") == 0 and d.get("suite_mutated", {}).get("rc") == 0 and d.get("demo_mutated", {}).get("rc") not in (0, None)
    print(name, "VALID" if ok else "INVALID", "own:" + ("HIT" if name[:3] in al else "MISS"), "alarms:", al, ("inconclusive: %s" % inc) if inc else "")
print(n, "records since", since)
