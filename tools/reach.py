#!/usr/bin/env python3
"""Reach report: line coverage of /repo/src under the union of the quick workloads, measured with
a coverage-instrumented driver (-Cinstrument-coverage, nightly llvm-tools). Writes /verif/REACH.md.
Development-time measurement, not a registered check."""
import glob
import json
import os
import shutil
import subprocess
import sys

V = os.path.dirname(os.path.dirname(os.path.abspath(__file__)))
COVDIR = os.path.join(V, ".work", "cov")


def tool(name):
    c = glob.glob(os.path.expanduser("~/.rustup/toolchains/nightly-x86_64*/lib/rustlib/x86_64-unknown-linux-gnu/bin/" + name))
    if not c:
        sys.exit("llvm tool %s not found" % name)
    return c[0]


def main():
    checks = sys.argv[1:] or ["C%02d" % i for i in range(1, 21)]
    shutil.rmtree(COVDIR, ignore_errors=True)
    env = dict(os.environ, VERIF_COV="1")
    for c in checks:
        p = subprocess.run([os.path.join(V, "check"), c, "quick"], cwd=V, env=env, stdout=subprocess.PIPE, stderr=subprocess.STDOUT, text=True)
        print(c, p.stdout.strip().splitlines()[-1] if p.stdout.strip() else p.returncode, flush=True)
    prof = os.path.join(COVDIR, "merged.profdata")
    raws = glob.glob(os.path.join(COVDIR, "*.profraw"))
    subprocess.check_call([tool("llvm-profdata"), "merge", "-sparse", "-o", prof] + raws)
    binary = os.path.join(V, ".target", "A-cov", "release", "vdriver")
    out = subprocess.run([tool("llvm-cov"), "export", "--format=lcov", "--instr-profile", prof, binary], stdout=subprocess.PIPE, text=True).stdout
    files = {}
    cur = None
    for line in out.splitlines():
        if line.startswith("SF:"):
            cur = line[3:]
            files[cur] = {}
        elif line.startswith("DA:") and cur:
            ln, cnt = line[3:].split(",")[:2]
            files[cur][int(ln)] = files[cur].get(int(ln), 0) + int(cnt)
    lines = ["# Reach: line coverage of /repo/src under the union of the quick workloads (driver cfg A)", "",
             "Measured by `tools/reach.py` (coverage-instrumented driver; checks: %s). Test modules (`#[cfg(test)]`) and" % " ".join(checks),
             "feature-gated code that is not part of cfg A (hfs/Kyber, `risky-raw-split`, no_std) are not compiled in.", "",
             "| file | lines | covered | % | uncovered line numbers |", "|---|---|---|---|---|"]
    tot = cov = 0
    for f in sorted(files):
        if not f.startswith("/repo/src/"):
            continue
        d = files[f]
        n = len(d)
        c = sum(1 for v in d.values() if v > 0)
        tot += n
        cov += c
        unc = sorted(k for k, v in d.items() if v == 0)
        lines.append("| %s | %d | %d | %.1f | %s |" % (f[len("/repo/"):], n, c, 100.0 * c / max(1, n), _ranges(unc)))
    lines.append("| **total** | %d | %d | %.1f | |" % (tot, cov, 100.0 * cov / max(1, tot)))
    lines += ["", "## Why the remaining lines are not executed", "",
              "* `builder.rs` 264: `ValidatePskLengths` - unreachable through the public API (`psk()` takes `&[u8; 32]`).",
              "* `cipherstate.rs` 38/61/140/160 (`MissingKeyMaterial` in en/decrypt), 103 (`ValidateCipherTypes`): defensive branches; a transport cipher always has a key after `Split()`, and both ciphers come from the same resolver call. They become reachable only under a defect (e.g. the builder prerequisite tables being wrong - seeded change C12m1 drives 254/174 of handshakestate.rs).",
              "* `handshakestate.rs` 73 (`ValidateKeyLengths`: s and e always come from the same DH), 89-125 (`MissingKeyMaterial` for pre-message keys: the builder refuses first), 174/254 (same, for DH and `s` tokens), 327 (the post-encryption 65535 check, dead since fix ea01672 tests the limit before encrypting).",
              "* `params/patterns.rs` 237, 244-246: `is_fallback()` (never called by the crate itself) and a closing brace.",
              "* `resolvers/default.rs` 83, 96: `_ => None` arms that are unreachable when every primitive feature is enabled (cfg A).",
              "* `resolvers/ring.rs` 59-65: `next_u32` / `next_u64` of the ring RNG (snow only ever calls `fill_bytes`).",
              ""]
    with open(os.path.join(V, "REACH.md"), "w") as fh:
        fh.write("\n".join(lines) + "\n")
    print("\n".join(lines))
    shutil.rmtree(COVDIR, ignore_errors=True)


def _ranges(nums):
    out = []
    i = 0
    while i < len(nums):
        j = i
        while j + 1 < len(nums) and nums[j + 1] == nums[j] + 1:
            j += 1
        out.append(str(nums[i]) if i == j else "%d-%d" % (nums[i], nums[j]))
        i = j + 1
    return " ".join(out)


if __name__ == "__main__":
    main()
