"""Shared workload builders: key material, parties, honest handshakes, transport traffic."""
import random

from noiseref import prims
from noiseref.patterns import PATTERNS, needs_local_static, needs_remote_static, overhead, parse_name_simple

from .script import gen_bytes

BIGBUF = 70000


def valid_priv(dh, seed):
    k = 0
    while True:
        b = gen_bytes("%s.%d" % (seed, k), 32)
        if dh != "P256" or prims.p256_valid_scalar(b):
            return b
        k += 1


class Keys:
    def __init__(self, parsed, seed):
        dh = parsed.dh
        self.s_i = valid_priv(dh, "si" + str(seed))
        self.s_r = valid_priv(dh, "sr" + str(seed))
        self.pub_i = prims.dh_pub(dh, self.s_i)
        self.pub_r = prims.dh_pub(dh, self.s_r)
        self.psks = {n: gen_bytes("psk%d.%s" % (n, seed), 32) for n in parsed.psks}


def party_kwargs(parsed, keys, initiator, supply="needed"):
    """s / rs / psks for one role. supply: 'needed' (exactly what the pattern requires),
    'all' (also an unneeded local static and remote static)"""
    pat = parsed.pattern
    kw = {}
    if supply == "all" or needs_local_static(pat, initiator):
        kw["s"] = keys.s_i if initiator else keys.s_r
    if supply == "all" or needs_remote_static(pat, initiator):
        kw["rs"] = keys.pub_r if initiator else keys.pub_i
    kw["psks"] = dict(keys.psks)
    return kw


def add_pair(case, parsed, keys, res=("D", "D"), rng=("os", "os"), prologue=(None, None), rec=("r", "r"), supply=("needed", "needed"), ids=("A", "B"), name=None, late=((), ())):
    """late: per party, psk indices NOT given to the builder (to be installed with set_psk by add_handshake)"""
    nm = name or parsed.name
    for j, ini in ((0, True), (1, False)):
        kw = party_kwargs(parsed, keys, ini, supply[j])
        kw["psks"] = {n: v for n, v in kw["psks"].items() if n not in late[j]}
        case.party(ids[j], "i" if ini else "r", nm, res=res[j], rng=rng[j], prologue=prologue[j], rec=rec[j], **kw)
    b0 = case.op("build", ids[0])
    b1 = case.op("build", ids[1])
    return b0, b1


def max_payloads(parsed):
    publen = prims.DH_PUBLEN[parsed.dh]
    return [65535 - o for o in overhead(parsed.pattern, parsed.psks, publen)]


def add_handshake(case, parsed, payloads, ids=("A", "B"), buf=BIGBUF, rbuf=BIGBUF, prefix="m", flags=(), upto=None, late=((), ()), keys=None):
    """honest handshake: payloads = list of payload specs (one per message). returns register names.
    late: psk indices per party installed with set_psk() right before the message that needs them"""
    n = parsed.nmsgs if upto is None else upto
    regs = []
    for i in range(n):
        w, r = (ids[0], ids[1]) if i % 2 == 0 else (ids[1], ids[0])
        for j in (0, 1):
            for k in sorted(late[j]):
                if (k == 0 and i == 0) or (k > 0 and k - 1 == i):
                    case.op("set_psk", ids[j], loc=k, key=keys.psks[k])
        reg = "%s%d" % (prefix, i)
        case.op("hs_write", w, pay=payloads[i], buf=buf, out=reg, flags=flags)
        case.op("hs_read", r, msg="$" + reg, buf=rbuf, flags=flags)
        regs.append(reg)
    return regs


def add_convert(case, ids=("A", "B"), stateless=False):
    op = "to_stateless" if stateless else "to_transport"
    case.op(op, ids[0])
    case.op(op, ids[1])


def add_transport(case, parsed, plan, ids=("A", "B"), stateless=False, nonces=None, prefix="t", buf=BIGBUF, rekey_at=(), rbufs=None):
    """plan: list of (dir, payload spec) with dir 0 = initiator->responder, 1 = back.
    stateless: nonces list (per message) or default the per-direction counter.
    rekey_at: message indices before which the sender rekeys its outgoing and the receiver its incoming key"""
    cnt = [0, 0]
    for k, (d, pay) in enumerate(plan):
        w, r = (ids[0], ids[1]) if d == 0 else (ids[1], ids[0])
        if k in rekey_at:
            case.op("rekey_out", w)
            case.op("rekey_in", r)
        reg = "%s%d" % (prefix, k)
        if stateless:
            n = nonces[k] if nonces else cnt[d]
            case.op("st_write", w, n=n, pay=pay, buf=buf, out=reg)
            case.op("st_read", r, n=n, msg="$" + reg, buf=rbufs[k] if rbufs else buf)
        else:
            case.op("t_write", w, pay=pay, buf=buf, out=reg)
            case.op("t_read", r, msg="$" + reg, buf=rbufs[k] if rbufs else buf)
        cnt[d] += 1


PAYLENS = [0, 1, 15, 16, 17, 31, 32, 33, 63, 64, 65, 127, 128, 129, 255, 256, 1000, 4096]


def payload_len_choice(rnd, maxlen, boundary_bias=0.15):
    x = rnd.random()
    if x < boundary_bias:
        return rnd.choice([maxlen, maxlen - 1, max(0, maxlen - 16)])
    if x < 0.5:
        return min(maxlen, rnd.choice(PAYLENS))
    return rnd.randrange(0, min(maxlen, 300) + 1)


def prologue_choice(rnd, hashlen_, blocklen_):
    c = rnd.randrange(8)
    if c == 0:
        return None
    if c == 1:
        return b""
    ln = rnd.choice([1, hashlen_ - 1, hashlen_, hashlen_ + 1, blocklen_ - 1, blocklen_, blocklen_ + 1, 2 * blocklen_ + 3, 1000])
    return gen_bytes("pl%d" % rnd.getrandbits(32), ln)
