"""Lock-step expectation engine ("shadow"): interprets the same script as the driver, runs the
independent model next to the real events, and reports per-op deviations tagged by aspect.
It demands only what DESIGN.md appendix B lists; everything else is `unspecified` and followed."""
import hashlib

from noiseref import model, prims
from noiseref.patterns import PATTERNS, layout, parse_name_simple, tokens_for

from .script import gen_bytes

MAXN = 2**64 - 1


def kv_tokens(tokens):
    d = {}
    flags = []
    for t in tokens:
        i = t.find("=")
        if i > 0:
            d[t[:i]] = t[i + 1:]
        else:
            flags.append(t)
    return d, flags


class SpecError(Exception):
    pass


def eval_base(base, regs):
    if base in ("-", ""):
        return b""
    if base[0] == "$":
        v = regs.get(base[1:])
        if v is None:
            raise SpecError("noreg:" + base[1:])
        return v
    f = base.split(":")
    if f[0] == "gen":
        return gen_bytes(f[2], int(f[1]))
    if f[0] == "zero":
        return b"\x00" * int(f[1])
    if f[0] == "fill":
        return bytes([int(f[2])]) * int(f[1])
    if f[0] == "lit":
        return bytes.fromhex(f[1])
    return bytes.fromhex(base)


def eval_bytes(spec, regs):
    parts = spec.split("~")
    v = bytearray(eval_base(parts[0], regs))
    for m in parts[1:]:
        f = m.split(":")
        k = f[0]
        if k == "flip":
            bit = int(f[1])
            if bit // 8 >= len(v):
                raise SpecError("flip range")
            v[bit // 8] ^= 1 << (bit % 8)
        elif k == "trunc":
            n = int(f[1])
            if n > len(v):
                raise SpecError("trunc range")
            del v[n:]
        elif k == "drop":
            n = int(f[1])
            if n > len(v):
                raise SpecError("drop range")
            del v[:n]
        elif k == "ext":
            v += eval_base(m[4:], regs)
        elif k == "pre":
            v = bytearray(eval_base(m[4:], regs)) + v
        elif k in ("xor", "set"):
            off = int(f[1])
            d = bytes.fromhex(f[2])
            if off + len(d) > len(v):
                raise SpecError("xor range")
            for i, b in enumerate(d):
                if k == "xor":
                    v[off + i] ^= b
                else:
                    v[off + i] = b
        else:
            raise SpecError("mutation " + m)
    return bytes(v)


def decode_out(s):
    """`out=` field -> (bytes or None, length, sha256 or None)"""
    if s is None:
        return None, None, None
    if s == "-":
        return b"", 0, None
    if s.startswith("big:"):
        f = s.split(":")
        return None, int(f[1]), bytes.fromhex(f[2])
    b = bytes.fromhex(s)
    return b, len(b), None


def out_matches(ev, expected):
    """does the event's produced output equal `expected` bytes?  -> (bool, actual bytes or None)"""
    kv = ev.kv
    if "out" in kv:
        b, ln, sh = decode_out(kv["out"])
        if b is not None:
            return b == expected, b
        return (ln == len(expected) and hashlib.sha256(expected).digest() == sh), None
    if "outd" in kv:
        ln, d = kv["outd"].split(":")
        return (int(ln) == len(expected) and hashlib.sha256(expected).digest()[:8].hex() == d), None
    return False, None


class Dev:
    __slots__ = ("aspect", "label", "op", "party", "msg", "res")

    def __init__(self, aspect, ev, msg):
        self.aspect = aspect
        self.res = ev.res
        self.label = ev.label
        self.op = ev.op
        self.party = ev.party
        self.msg = msg

    def __repr__(self):
        return "Dev(%s @%s %s %s: %s)" % (self.aspect, self.label, self.op, self.party, self.msg)


class PartyShadow:
    def __init__(self, pid, kv):
        self.pid = pid
        self.role_i = kv["role"] == "i"
        self.name_bytes = bytes.fromhex(kv["name"]) if kv["name"] != "-" else b""
        self.res = kv.get("res", "D")
        self.rng = kv.get("rng", "os")
        self.cfg = kv
        self.s = self._opt(kv.get("s"))
        self.rs = self._opt(kv.get("rs"))
        self.e_fixed = self._opt(kv.get("e"))
        self.prologue = self._opt(kv.get("prologue")) or b""
        self.psks = {}
        for k, v in kv.items():
            if k.startswith("psk") and k[3:].isdigit():
                self.psks[int(k[3:])] = eval_bytes(v, {})
        self.state = "none"  # none | hs | tr | sl | gone | lost
        self.hs = None
        self.tr = None
        self.parsed = None
        self.prev_obs = None
        try:
            self.parsed = parse_name_simple(self.name_bytes.decode("utf-8"))
            if self.parsed.pattern not in PATTERNS or self.parsed.dh not in prims.DH_PUBLEN or self.parsed.cipher not in ("ChaChaPoly", "AESGCM", "XChaChaPoly") or self.parsed.hash not in prims.HASHES:
                self.parsed = None
            elif any(not m.startswith("psk") for m in self.parsed.mods) or any(n > self.parsed.nmsgs for n in self.parsed.psks) or len(set(self.parsed.psks)) != len(self.parsed.psks):
                self.parsed = None
        except (ValueError, UnicodeDecodeError):
            self.parsed = None

    @staticmethod
    def _opt(v):
        if v is None or v == "none":
            return None
        return eval_bytes(v, {})


class OpView:
    """what the shadow concluded about one op"""

    __slots__ = ("ev", "kind", "devs", "expect", "info")

    def __init__(self, ev):
        self.ev = ev
        self.kind = "nojudge"  # must_ok | must_err | unspec | nojudge
        self.devs = []
        self.expect = None
        self.info = {}


ERR_STATE_W = ("State(NotTurnToWrite)", "State(HandshakeAlreadyFinished)")


class Shadow:
    def __init__(self, case):
        self.case = case
        self.parties = {}
        self.regs = {}
        self.stopped = False  # a result/bytes deviation ended lock-step
        self.views = []
        self.unspecified = 0
        self.script_ops = []
        for line in case.lines:
            t = line.split()
            if not t:
                continue
            if t[0] == "party":
                kv, _ = kv_tokens(t[2:])
                self.parties[t[1]] = PartyShadow(t[1], kv)
            elif t[0] == "reg":
                self.script_ops.append(("reg", t[1], t[2]))
            elif t[0] == "conc":
                self.script_ops.append(("conc", None, None))
            elif t[0] in ("thr", "endconc"):
                continue
            else:
                kv, flags = kv_tokens(t[2:] if len(t) > 1 and "=" not in t[1] else t[1:])
                pid = t[1] if len(t) > 1 and "=" not in t[1] else None
                self.script_ops.append((t[0], pid, (kv, flags)))

    # ------------------------------------------------------------ main loop

    def run(self, events):
        """walk the events in order; returns list[OpView]"""
        by_label = {}
        for e in events:
            by_label.setdefault(e.label.split(".")[0], []).append(e)
        lab = 0
        for op, pid, arg in self.script_ops:
            if op == "reg":
                try:
                    self.regs[pid] = eval_bytes(arg, self.regs)
                except SpecError:
                    pass
                continue
            evs = by_label.get(str(lab), [])
            lab += 1
            if op == "pingpong":
                self._pingpong(evs, arg)
                continue
            for e in evs:
                v = OpView(e)
                self.views.append(v)
                if op == "conc":
                    continue
                kv, flags = arg
                if self.stopped or e.skipped:
                    self._track_obs(e)
                    continue
                try:
                    self._step(v, op, pid, kv, flags)
                except SpecError:
                    v.kind = "nojudge"
                self._track_obs(e)
        return self.views

    def _track_obs(self, e):
        p = self.parties.get(e.party)
        if p is not None:
            p.prev_obs = e.obs()

    def _pingpong(self, evs, arg):
        kv, _ = arg
        plen = int(kv.get("plen", "0"))
        seed = kv.get("seed", "pp")
        buf = kv.get("buf", "70000")
        for e in evs:
            v = OpView(e)
            self.views.append(v)
            if e.op == "pingpong" or self.stopped or e.skipped:
                continue
            step = int(e.label.split(".")[1])
            k = step // 2
            if e.op == "hs_write":
                okv = {"pay": "gen:%d:%s.%d" % (plen, seed, k), "buf": buf, "out": "pp%d" % k}
            else:
                okv = {"msg": "$pp%d" % k, "buf": buf}
            try:
                self._step(v, e.op, e.party, okv, [])
            except SpecError:
                pass
            self._track_obs(e)

    # ------------------------------------------------------------ helpers

    def _dev(self, v, aspect, msg):
        v.devs.append(Dev(aspect, v.ev, msg))

    def _expect_err(self, v, kinds, why):
        """kinds: set of acceptable Debug strings, or None for any Err"""
        v.kind = "must_err"
        v.expect = (kinds, why)
        e = v.ev
        if e.panic:
            self._dev(v, "panic", "panicked where Err(%s) was due (%s): %s" % ("|".join(sorted(kinds)) if kinds else "any", why, e.res[:160]))
            self.stopped = True
        elif e.ok:
            self._dev(v, "res", "returned %s where an error was due (%s)" % (e.res, why))
            self.stopped = True
        elif e.err:
            if kinds is not None and e.errkind() not in kinds:
                self._dev(v, "errkind", "returned %s, expected one of %s (%s)" % (e.errkind(), sorted(kinds), why))
            self._obs_unchanged(v)

    def _obs_unchanged(self, v):
        p = self.parties.get(v.ev.party)
        if p is None or p.prev_obs is None:
            return
        now = v.ev.obs()
        if now.get("st") in ("gone", "poisoned"):
            return
        for k, old in p.prev_obs.items():
            if now.get(k) != old:
                self._dev(v, "obs.changed", "failed call changed %s: %s -> %s" % (k, old[:80], str(now.get(k))[:80]))

    def _rng_bytes(self, ev):
        out = b""
        for kind, sub, kv in ev.subs:
            if kind == "r" and sub == "fill" and kv.get("bytes", "-") != "-":
                out += bytes.fromhex(kv["bytes"])
        return out

    # ------------------------------------------------------------ per-op

    def _step(self, v, op, pid, kv, flags):
        e = v.ev
        p = self.parties.get(pid)
        if p is None:
            return
        if p.state == "lost":
            return
        if e.panic and op not in ("hs_write", "hs_read", "t_write", "t_read", "st_write", "st_read"):
            self._dev(v, "panic", "%s panicked: %s" % (op, e.res[:160]))
            p.state = "lost"
            return
        if op == "build":
            self._build(v, p)
        elif op == "hs_write":
            self._hs_write(v, p, kv)
        elif op == "hs_read":
            self._hs_read(v, p, kv)
        elif op in ("t_write", "st_write"):
            self._t_write(v, p, kv, op == "st_write")
        elif op in ("t_read", "st_read"):
            self._t_read(v, p, kv, op == "st_read")
        elif op in ("to_transport", "to_stateless"):
            self._convert(v, p, op)
        elif op == "set_psk":
            self._set_psk(v, p, kv)
        elif op in ("rekey_out", "rekey_in", "rekey_manual"):
            self._rekey(v, p, op, kv)
        elif op in ("set_rx_nonce", "set_tx_nonce"):
            if p.state == "tr" and e.ok:
                n = int(kv["n"])
                if op == "set_rx_nonce":
                    p.tr.rx.n = n
                else:
                    p.tr.tx.n = n
                self._check_obs(v, p)
        elif op == "obs":
            self._check_obs(v, p)
        elif op == "keygen":
            if e.ok and "store" in flags:
                p.s = bytes.fromhex(e.kv["priv"])
            if e.ok and "out" in kv:
                self.regs[kv["out"]] = bytes.fromhex(e.kv["pub"])
        elif op == "set_rs":
            p.rs = eval_bytes(kv.get("key", "-"), self.regs)

    def _build(self, v, p):
        e = v.ev
        if not e.ok:
            v.kind = "unspec"
            return
        if p.parsed is None or p.res == "N" and False:
            p.state = "lost"
            return
        try:
            name = p.name_bytes.decode("utf-8")
            dh = p.parsed.dh
            s = p.s
            if s is not None and len(s) != 32:
                p.state = "lost"
                return
            if s is not None and dh == "P256" and not prims.p256_valid_scalar(s):
                p.state = "lost"
                return
            rs = p.rs
            if rs is not None and len(rs) != prims.DH_PUBLEN[dh]:
                p.state = "lost"  # a supplied key of a length the DH does not define: unspecified
                return
            p.hs = model.HandshakeState(name, p.role_i, s=s, rs=rs, psks=p.psks, prologue=p.prologue, parsed=p.parsed)
            p.state = "hs"
            v.kind = "must_ok"
            self._check_obs(v, p)
        except model.Reject:
            p.state = "lost"

    def _pred_len(self, p, paylen):
        """(predicted message length, payload_encrypted) for the next message of p"""
        hs = p.hs
        publen = prims.DH_PUBLEN[hs.p.dh]
        lay = layout(hs.p.pattern, hs.p.psks, publen)
        fields, hk, off = lay[hs.pos]
        return off + paylen + (16 if hk else 0), hk

    def _missing_psk(self, hs):
        return any(isinstance(t, tuple) and t[1] not in hs.psks for t in hs.msgs[hs.pos])

    def _hs_write(self, v, p, kv):
        e = v.ev
        if p.state != "hs":
            return
        hs = p.hs
        pay = eval_bytes(kv.get("pay", "-"), self.regs)
        buf = int(kv["buf"])
        kinds = set()
        if not hs.my_turn:
            kinds.add("State(NotTurnToWrite)")
        if hs.finished:
            kinds.add("State(HandshakeAlreadyFinished)")
        if kinds:
            v.info["cause"] = "state"
            self._expect_err(v, kinds, "out of turn / finished")
            return
        pred, hk = self._pred_len(p, len(pay))
        v.info["pred"] = pred
        if self._missing_psk(hs):
            kinds.add("State(MissingPsk)")
        if pred > 65535 or pred > buf:
            kinds.add("Input")
        if kinds:
            v.info["cause"] = "+".join(sorted(kinds))
            self._expect_err(v, kinds, "message of %d bytes, buffer %d" % (pred, buf))
            return
        # model the write
        drawn = self._rng_bytes(e)
        has_e = "e" in hs.msgs[hs.pos]
        eph = None
        if has_e:
            if p.e_fixed is not None:
                eph = p.e_fixed
            elif len(drawn) >= 32:
                eph = drawn[:32]
            elif e.ok:
                v.info["noeph"] = True
                eph = hs.e
        w = hs.clone()
        try:
            if has_e and eph is None:
                raise model.Reject("unknown ephemeral")
            exp = w.write_message(pay, eph)
        except model.Reject as r:
            why = r.args[0]
            if why == "dh":
                self._expect_err(v, None, "stored remote key invalid for the DH")
                return
            if why == "unknown ephemeral" and not e.ok:
                # failed before drawing; nothing to compare (unspecified zone below decides)
                exp = None
            else:
                v.kind = "nojudge"
                p.state = "lost"
                return
        if not hk and buf < pred + 16:
            # unspecified zone: unencrypted payload, fewer than 16 spare bytes
            v.kind = "unspec"
            self.unspecified += 1
            if e.ok:
                self._accept_write(v, p, w, exp, kv, pred)
            elif e.panic:
                self._dev(v, "panic", "hs_write panicked: %s" % e.res[:160])
                self.stopped = True
            else:
                self._obs_unchanged(v)
            return
        v.kind = "must_ok"
        if e.panic:
            self._dev(v, "panic", "hs_write panicked where Ok(%d) was due: %s" % (pred, e.res[:160]))
            self.stopped = True
            return
        if not e.ok:
            self._dev(v, "res", "hs_write returned %s where Ok(%d) was due (buffer %d)" % (e.res, pred, buf))
            self.stopped = True
            return
        self._accept_write(v, p, w, exp, kv, pred)

    def _accept_write(self, v, p, w, exp, kv, pred):
        e = v.ev
        if exp is None:
            p.state = "lost"
            return
        if e.oklen() != len(exp):
            self._dev(v, "len", "hs_write returned Ok(%d), specification length %d" % (e.oklen(), len(exp)))
        same, actual = out_matches(e, exp)
        if not same:
            self._dev(v, "bytes", "handshake message %d differs from the specification's (%d bytes)" % (p.hs.pos, len(exp)))
            self.stopped = True
            if "out" in kv and actual is not None:
                self.regs[kv["out"]] = actual
            return
        if "out" in kv:
            self.regs[kv["out"]] = exp
        p.hs = w
        v.info["wrote"] = True
        self._check_obs(v, p, after_write=True)

    def _hs_read(self, v, p, kv):
        e = v.ev
        if p.state != "hs":
            return
        hs = p.hs
        msg = eval_bytes(kv.get("msg", "-"), self.regs)
        buf = int(kv["buf"])
        v.info["msglen"] = len(msg)
        kinds = set()
        if len(msg) > 65535:
            kinds.add("Input")
        if hs.my_turn:
            kinds.add("State(NotTurnToRead)")
        if hs.finished:
            kinds.add("State(HandshakeAlreadyFinished)")
        if kinds:
            v.info["cause"] = "state" if "Input" not in kinds else "oversize"
            self._expect_err(v, kinds, "oversize / out of turn / finished")
            return
        if self._missing_psk(hs):
            v.info["cause"] = "missingpsk"
            # any other defect of the message may be reported instead
            w = hs.clone()
            for t in hs.msgs[hs.pos]:
                if isinstance(t, tuple) and t[1] not in w.psks:
                    w.psks[t[1]] = b"\x00" * 32
            try:
                w.read_message(msg)
                self._expect_err(v, {"State(MissingPsk)"}, "psk not set")
            except model.Reject:
                self._expect_err(v, None, "psk not set and message defective")
            return
        w = hs.clone()
        try:
            payload = w.read_message(msg)
        except model.Reject as r:
            v.info["cause"] = "model:" + r.args[0]
            self._expect_err(v, None, "model rejects the message: " + r.args[0])
            return
        if len(payload) > buf:
            v.info["cause"] = "paybuf"
            self._expect_err(v, None, "payload of %d bytes, buffer %d" % (len(payload), buf))
            return
        v.kind = "must_ok"
        if e.panic:
            self._dev(v, "panic", "hs_read panicked where Ok(%d) was due: %s" % (len(payload), e.res[:160]))
            self.stopped = True
            return
        if not e.ok:
            self._dev(v, "res", "hs_read returned %s where Ok(%d) was due" % (e.res, len(payload)))
            self.stopped = True
            return
        if e.oklen() != len(payload):
            self._dev(v, "len", "hs_read returned Ok(%d), expected %d" % (e.oklen(), len(payload)))
        same, _ = out_matches(e, payload)
        if not same:
            self._dev(v, "payload", "hs_read payload differs from the model's")
            self.stopped = True
            return
        if "out" in kv:
            self.regs[kv["out"]] = payload
        p.hs = w
        v.info["read"] = True
        self._check_obs(v, p)

    def _convert(self, v, p, op):
        e = v.ev
        if p.state != "hs":
            return
        if p.hs.finished:
            v.kind = "must_ok"
            if not e.ok:
                self._dev(v, "res", "%s returned %s after the last message" % (op, e.res))
                self.stopped = True
                return
            p.tr = model.Transport(p.hs)
            p.state = "tr" if op == "to_transport" else "sl"
            self._check_obs(v, p)
        else:
            v.kind = "must_err"
            if e.ok:
                self._dev(v, "res", "%s succeeded before the handshake finished" % op)
                self.stopped = True
            elif e.errkind() != "State(HandshakeNotFinished)":
                self._dev(v, "errkind", "%s returned %s, expected State(HandshakeNotFinished)" % (op, e.errkind()))
            p.state = "gone"

    def _set_psk(self, v, p, kv):
        e = v.ev
        if p.state != "hs":
            return
        key = eval_bytes(kv.get("key", "-"), self.regs)
        loc = int(kv["loc"])
        if loc < 10 and len(key) == 32:
            v.kind = "must_ok"
            if not e.ok:
                self._dev(v, "res", "set_psk(%d, 32 bytes) returned %s" % (loc, e.res))
                self.stopped = True
                return
            p.hs.psks[loc] = key
        else:
            v.kind = "unspec"
            self.unspecified += 1
            if e.ok and len(key) == 32:
                p.hs.psks[loc] = key
            elif e.ok:
                p.state = "lost"
        self._check_obs(v, p)

    def _rekey(self, v, p, op, kv):
        if p.state not in ("tr", "sl") or not v.ev.ok:
            return
        t = p.tr
        if op == "rekey_out":
            t.tx.rekey()
        elif op == "rekey_in":
            t.rx.rekey()
        else:
            if kv.get("i", "-") != "-":
                t.c_i.k = bytes.fromhex(kv["i"])
            if kv.get("r", "-") != "-":
                t.c_r.k = bytes.fromhex(kv["r"])
        self._check_obs(v, p)

    def _t_write(self, v, p, kv, stateless):
        e = v.ev
        if p.state != ("sl" if stateless else "tr"):
            return
        t = p.tr
        pay = eval_bytes(kv.get("pay", "-"), self.regs)
        buf = int(kv["buf"])
        n = int(kv["n"]) if stateless else t.tx.n
        kinds = set()
        if t.oneway and not t.initiator:
            kinds.add("State(OneWay)")
        if len(pay) + 16 > 65535 or len(pay) + 16 > buf:
            kinds.add("Input")
        if n == MAXN:
            kinds.add("State(Exhausted)")
        if kinds:
            v.info["cause"] = "+".join(sorted(kinds))
            self._expect_err(v, kinds, "transport write, payload %d, buffer %d, nonce %d" % (len(pay), buf, n))
            return
        exp = prims.aead_encrypt(t.tx.cipher, t.tx.k, n, b"", pay)
        v.kind = "must_ok"
        if e.panic:
            self._dev(v, "panic", "transport write panicked: %s" % e.res[:160])
            self.stopped = True
            return
        if not e.ok:
            self._dev(v, "res", "transport write returned %s where Ok(%d) was due" % (e.res, len(exp)))
            self.stopped = True
            return
        if e.oklen() != len(exp):
            self._dev(v, "len", "transport write returned Ok(%d), expected %d" % (e.oklen(), len(exp)))
        same, actual = out_matches(e, exp)
        if not same:
            self._dev(v, "bytes", "transport message (nonce %d) differs from the specification's" % n)
            self.stopped = True
            return
        if "out" in kv:
            self.regs[kv["out"]] = exp
        if not stateless:
            t.tx.n += 1
        v.info["wrote"] = True
        self._check_obs(v, p)

    def _t_read(self, v, p, kv, stateless):
        e = v.ev
        if p.state != ("sl" if stateless else "tr"):
            return
        t = p.tr
        msg = eval_bytes(kv.get("msg", "-"), self.regs)
        buf = int(kv["buf"])
        n = int(kv["n"]) if stateless else t.rx.n
        v.info["msglen"] = len(msg)
        kinds = set()
        if len(msg) > 65535:
            kinds.add("Input")
        if t.oneway and t.initiator:
            kinds.add("State(OneWay)")
        if kinds:
            v.info["cause"] = "+".join(sorted(kinds))
            self._expect_err(v, kinds, "oversize / one-way")
            return
        if len(msg) < 16 or buf < len(msg) - 16:
            v.info["cause"] = "short/paybuf"
            self._expect_err(v, None, "message %d bytes, buffer %d" % (len(msg), buf))
            return
        if n == MAXN:
            v.info["cause"] = "exhausted"
            self._expect_err(v, {"State(Exhausted)"}, "nonce 2^64-1")
            return
        pt = prims.aead_decrypt(t.rx.cipher, t.rx.k, n, b"", msg)
        if pt is None:
            v.info["cause"] = "auth"
            self._expect_err(v, None, "tag does not verify under the receiver's key and nonce %d" % n)
            return
        v.kind = "must_ok"
        if e.panic:
            self._dev(v, "panic", "transport read panicked: %s" % e.res[:160])
            self.stopped = True
            return
        if not e.ok:
            self._dev(v, "res", "transport read returned %s where Ok(%d) was due (nonce %d)" % (e.res, len(pt), n))
            self.stopped = True
            return
        if e.oklen() != len(pt):
            self._dev(v, "len", "transport read returned Ok(%d), expected %d" % (e.oklen(), len(pt)))
        same, _ = out_matches(e, pt)
        if not same:
            self._dev(v, "payload", "transport read payload differs")
            self.stopped = True
            return
        if "out" in kv:
            self.regs[kv["out"]] = pt
        if not stateless:
            t.rx.n += 1
        v.info["read"] = True
        self._check_obs(v, p)

    # ------------------------------------------------------------ observations

    def _check_obs(self, v, p, after_write=False):
        o = v.ev.obs()
        st = o.get("st")
        if p.state == "hs" and st == "hs":
            hs = p.hs
            if o.get("turn") != str(int(hs.my_turn)):
                self._dev(v, "obs.turn", "is_my_turn=%s, model %d" % (o.get("turn"), hs.my_turn))
            if o.get("fin") != str(int(hs.finished)):
                self._dev(v, "obs.fin", "is_handshake_finished=%s, model %d" % (o.get("fin"), hs.finished))
            if o.get("init") != str(int(hs.initiator)):
                self._dev(v, "obs.init", "is_initiator=%s" % o.get("init"))
            if o.get("hh") != hs.h.hex():
                self._dev(v, "obs.hh", "handshake hash differs from the model's")
            if after_write and o.get("wpe") != str(int(hs.last_write_encrypted)):
                self._dev(v, "obs.wpe", "was_write_payload_encrypted=%s, model %d" % (o.get("wpe"), hs.last_write_encrypted))
            exp_rs = hs.rs.hex() if hs.rs is not None else "none"
            if o.get("rs") != exp_rs:
                self._dev(v, "obs.rs", "get_remote_static=%s, model %s" % (o.get("rs"), exp_rs))
        elif p.state in ("tr", "sl") and st == p.state:
            t = p.tr
            if o.get("init") != str(int(t.initiator)):
                self._dev(v, "obs.init", "is_initiator=%s" % o.get("init"))
            exp_rs = t.rs.hex() if t.rs is not None else "none"
            if o.get("rs") != exp_rs:
                self._dev(v, "obs.rs", "get_remote_static=%s, model %s" % (o.get("rs"), exp_rs))
            if p.state == "tr":
                if o.get("sn") != str(t.tx.n):
                    self._dev(v, "obs.sn", "sending_nonce=%s, model %d" % (o.get("sn"), t.tx.n))
                if o.get("rn") != str(t.rx.n):
                    self._dev(v, "obs.rn", "receiving_nonce=%s, model %d" % (o.get("rn"), t.rx.n))
        elif st in ("poisoned",):
            pass
        elif st != p.state and p.state in ("hs", "tr", "sl"):
            self._dev(v, "obs.state", "driver state %s, model state %s" % (st, p.state))


def regs_from_events(case, events):
    """register name -> bytes for every op that stored its output in a register (full bytes only)"""
    names = {}
    lab = 0
    for line in case.lines:
        t = line.split()
        if not t or t[0] in ("party", "thr", "endconc"):
            continue
        if t[0] == "reg":
            try:
                names["@" + t[1]] = eval_bytes(t[2], {})
            except (SpecError, ValueError):
                pass
            continue
        for tok in t[1:]:
            if tok.startswith("out="):
                names[str(lab)] = tok[4:]
        lab += 1
    regs = {k[1:]: v for k, v in names.items() if k.startswith("@")}
    for e in events:
        nm = names.get(e.label)
        if nm is not None and e.ok:
            b, _, _ = decode_out(e.kv.get("out"))
            if b is not None:
                regs[nm] = b
    return regs
