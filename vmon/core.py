"""Check framework: plan -> shard -> (build cases, run driver, judge) in worker processes ->
aggregate -> verdict (three-valued), known-findings matching, replay files, evidence."""
import collections
import hashlib
import json
import multiprocessing as mp
import os
import re
import sys
import time
import traceback

from . import runner
from .runner import Inconclusive

VERIF = runner.VERIF
EVIDENCE_DIR = os.path.join(VERIF, "evidence") if not runner.ALT else os.path.join(runner.WORK, "evidence")
REPLAY_DIR = os.path.join(VERIF, "replays") if not runner.ALT else os.path.join(runner.WORK, "replays")
KNOWN = os.path.join(VERIF, "known_findings.json")
NPROC = int(os.environ.get("VERIF_JOBS", "16"))


class Violation:
    __slots__ = ("sig", "what", "detail", "case_text", "desc")

    def __init__(self, sig, what, detail=""):
        self.sig, self.what, self.detail = sig, what, detail
        self.case_text = None
        self.desc = None


class CaseResult:
    __slots__ = ("violations", "foreign", "stats", "keys", "nontrivial", "inconclusive", "sets")

    def __init__(self):
        self.sets = {}  # name -> set of hashable observations whose DISTINCT count is reported in the evidence
        self.violations = []
        self.foreign = []  # (property, what)
        self.stats = collections.Counter()
        self.keys = set()  # distinct non-trivial keys contributed by this case
        self.nontrivial = False
        self.inconclusive = []

    def viol(self, sig, what, detail=""):
        self.violations.append(Violation(sig, what, detail))

    def foreign_dev(self, prop, what):
        self.foreign.append((prop, what))


def norm_msg(s):
    """normalise a panic / error message for signatures: digits -> N"""
    return re.sub(r"\d+", "N", s)


def panic_sig(res):
    """'panic:<msg>@<file>:<line>' -> (normalised message, in-repo file without line)"""
    body = res[len("panic:"):]
    msg, _, loc = body.rpartition("@")
    f = loc.rsplit(":", 1)[0]
    if f.startswith(runner.REPO + "/"):
        f = f[len(runner.REPO) + 1:]
    f = re.sub(r"^.*/repo/", "", f)
    f = re.sub(r"^.*/registry/src/[^/]*/", "dep:", f)
    f = re.sub(r"^.*/rustlib/src/rust/", "std:", f)
    return norm_msg(msg)[:80], f


class Check:
    id = "C00"
    level = "exploration"
    cfg = "A"
    rule = ""
    assumptions = []
    shard_timeout = 600
    cases_per_shard = 400
    min_required = {}  # stat name -> minimum; below => inconclusive

    def __init__(self, tier, seed):
        self.tier = tier
        self.seed = seed

    # ---- to implement
    def plan(self):
        raise NotImplementedError

    def build(self, desc):
        raise NotImplementedError

    def judge(self, case, events, death):
        raise NotImplementedError

    def selftest(self):
        """oracle self-test run once in the parent before the workload; returns dict for evidence;
        raise Inconclusive when the oracle cannot be trusted. Default: standards' vectors for every
        model primitive, then enable the accelerators that agree with the pure implementations."""
        from noiseref import selftest

        r = selftest.run_all(vectors=False)
        if not r["ok"]:
            raise Inconclusive("oracle self-test failed: %r" % (r,))
        return r

    def extra_runs(self, binary):
        """sanitizer / tool runs beyond the sharded workload; returns (stats, violations, notes)"""
        return collections.Counter(), [], {}

    def extra_cfg_plans(self):
        """[(driver cfg, descs)] to run after the main pass with self.cfg switched (other feature sets)"""
        return []

    def finalize(self, agg):
        """last word on the aggregated result (cross-case oracles); may add violations"""
        return

    exhaustive = False
    eval_stat = None  # name of a stats counter to report as `evaluations` (default: cases executed)


class Agg:
    def __init__(self):
        self.stats = collections.Counter()
        self.keys = set()
        self.violations = {}  # sig -> Violation (first seen)
        self.viol_counts = collections.Counter()
        self.foreign = collections.Counter()
        self.samples = []
        self.inconclusive = []
        self.evaluations = 0
        self.nontrivial_cases = 0
        self.sets = {}

    def merge(self, other):
        for k, v in other.sets.items():
            self.sets.setdefault(k, set()).update(v)
        self.stats.update(other.stats)
        self.keys |= other.keys
        for s, v in other.violations.items():
            self.violations.setdefault(s, v)
        self.viol_counts.update(other.viol_counts)
        self.foreign.update(other.foreign)
        if len(self.samples) < 3:
            self.samples.extend(other.samples[: 3 - len(self.samples)])
        self.inconclusive.extend(other.inconclusive[:20])
        self.evaluations += other.evaluations
        self.nontrivial_cases += other.nontrivial_cases


def _key_hash(k):
    return hashlib.blake2b(repr(k).encode(), digest_size=8).digest()


_CHECK = None
_BINARY = None


def _work(arg):
    shard_no, descs = arg
    chk = _CHECK
    agg = Agg()
    try:
        cases = []
        # random generators may draw the same descriptor twice; running it twice adds nothing
        try:
            descs = list(dict.fromkeys(descs))
        except TypeError:
            descs = list({repr(d): d for d in descs}.values())
        for d in descs:
            c = chk.build(d)
            if c is not None:
                cases.append(c)
        ids = set()
        for c in cases:
            if c.id in ids:
                raise Inconclusive("duplicate case id %s (generator bug)" % c.id)
            ids.add(c.id)
        wd = os.path.join(runner.WORK, chk.id)
        wrapper, env = chk.wrapper_env() if hasattr(chk, "wrapper_env") else (None, None)
        events, deaths = runner.run_cases(_BINARY, cases, wd, "s%d" % shard_no, timeout=chk.shard_timeout, wrapper=wrapper, env=env)
        death_by_case = {d["case"]: d for d in deaths if d["case"] is not None}
        for d in deaths:
            if d["case"] is None:
                agg.inconclusive.append("driver exit status %r with all cases complete: %s" % (d["rc"], d["stderr"][-300:]))
        for c in cases:
            evs = events.get(c.id)
            death = death_by_case.get(c.id)
            if evs is None and death is None:
                agg.inconclusive.append("case %s produced no log" % c.id)
                continue
            if death is not None and evs is None:
                evs = death.get("partial", [])
            try:
                r = chk.judge(c, evs, death)
            except Exception:
                agg.inconclusive.append("judge error on case %s: %s" % (c.id, traceback.format_exc()[-1500:]))
                continue
            agg.evaluations += 1
            agg.stats.update(r.stats)
            for k in r.keys:
                agg.keys.add(_key_hash(k))
            for sn, sv in r.sets.items():
                agg.sets.setdefault(sn, set()).update(_key_hash(x) for x in sv)
            if r.nontrivial:
                agg.nontrivial_cases += 1
            for v in r.violations:
                agg.viol_counts[v.sig] += 1
                if v.sig not in agg.violations:
                    v.case_text = c.text()
                    v.desc = c.desc
                    if not v.detail:
                        v.detail = ""
                    v.detail += "\nobserved:\n" + "\n".join(_fmt_ev(e) for e in evs[:60])
                    agg.violations[v.sig] = v
            for f in r.foreign:
                agg.foreign["%s: %s" % f] += 1
            agg.inconclusive.extend(r.inconclusive)
            if len(agg.samples) < 2 and r.nontrivial:
                agg.samples.append(c.text()[:1500])
    except Inconclusive as e:
        agg.inconclusive.append(str(e))
    except Exception:
        agg.inconclusive.append("worker error: " + traceback.format_exc()[-2000:])
    return agg


def _fmt_ev(e):
    s = "ev %s %s %s %s" % (e.label, e.op, e.party, " ".join("%s=%s" % (k, (v if len(v) < 140 else v[:140] + "...")) for k, v in e.kv.items()))
    for kind, sub, kv in e.subs[:12]:
        s += "\n    %s %s %s" % (kind, sub, " ".join("%s=%s" % (k, (v if len(v) < 100 else v[:100] + "...")) for k, v in kv.items()))
    return s


def load_known():
    try:
        with open(KNOWN) as f:
            return json.load(f).get("findings", [])
    except FileNotFoundError:
        return []


def run_check(chk, replay=None):
    """returns exit code"""
    global _CHECK, _BINARY
    t0 = time.time()
    pid = chk.id
    os.makedirs(EVIDENCE_DIR, exist_ok=True)
    wd = os.path.join(runner.WORK, pid)
    os.makedirs(wd, exist_ok=True)
    for fn in os.listdir(wd):
        try:
            os.unlink(os.path.join(wd, fn))
        except OSError:
            pass
    notes = {}
    try:
        st = chk.selftest()
        if st is not None:
            notes["oracle_selftest"] = st
        _BINARY = runner.build_driver(chk.cfg)
        _CHECK = chk
        if replay is not None:
            descs = [replay]
        else:
            descs = chk.plan()
        n = len(descs)
        per = max(1, min(chk.cases_per_shard, (n + NPROC - 1) // NPROC))
        shards = [(i, descs[k:k + per]) for i, k in enumerate(range(0, n, per))]
        agg = Agg()
        if len(shards) <= 1 or NPROC == 1:
            for s in shards:
                agg.merge(_work(s))
        else:
            ctx = mp.get_context("fork")
            with ctx.Pool(min(NPROC, len(shards))) as pool:
                for a in pool.imap_unordered(_work, shards):
                    agg.merge(a)
        if replay is None:
            main_cfg = chk.cfg
            for xcfg, xdescs in chk.extra_cfg_plans():
                chk.cfg = xcfg
                try:
                    _BINARY = runner.build_driver(xcfg)
                except Inconclusive as e:
                    agg.inconclusive.append("cfg %s: %s" % (xcfg, str(e)[:400]))
                    chk.cfg = main_cfg
                    continue
                xper = max(1, min(chk.cases_per_shard, (len(xdescs) + NPROC - 1) // NPROC))
                xshards = [(1000 * (1 + ord(xcfg[0])) + i, xdescs[k:k + xper]) for i, k in enumerate(range(0, len(xdescs), xper))]
                ctx = mp.get_context("fork")
                with ctx.Pool(min(NPROC, max(1, len(xshards)))) as pool:
                    for a in pool.imap_unordered(_work, xshards):
                        agg.merge(a)
                notes.setdefault("extra_cfgs", []).append({"cfg": xcfg, "cases": len(xdescs)})
                chk.cfg = main_cfg
            _BINARY = runner.build_driver(main_cfg)
            xs, xv, xn = chk.extra_runs(_BINARY)
            agg.stats.update(xs)
            for v in xv:
                agg.viol_counts[v.sig] += 1
                agg.violations.setdefault(v.sig, v)
            notes.update(xn)
        chk.finalize(agg)
    except Inconclusive as e:
        print("INCONCLUSIVE property=%s %s" % (pid, str(e)[:3000]))
        _write_evidence(chk, Agg(), notes, time.time() - t0, inconclusive=[str(e)[:2000]], verdict="inconclusive")
        return 2

    # ---- verdict
    known = [k for k in load_known() if k.get("property") == pid]
    open_sigs = {k["signature"]: k for k in known if k.get("status") == "open"}
    fresh = []
    seen_known = []
    for sig, v in sorted(agg.violations.items()):
        if sig in open_sigs:
            seen_known.append((sig, v))
        else:
            fresh.append((sig, v))
    for sig, v in seen_known:
        print("KNOWN-FINDING: property=%s %s [%s] (%d occurrences)" % (pid, open_sigs[sig].get("what", v.what), sig, agg.viol_counts[sig]))
    rc = 0
    if fresh:
        os.makedirs(os.path.join(REPLAY_DIR, pid), exist_ok=True)
        for sig, v in fresh[:50]:
            h = hashlib.sha256(sig.encode()).hexdigest()[:12]
            path = os.path.join(REPLAY_DIR, pid, h + ".case")
            with open(path, "w") as f:
                json.dump(
                    {"property": pid, "signature": sig, "what": v.what, "detail": v.detail, "desc": v.desc, "script": v.case_text, "tier": chk.tier, "seed": chk.seed},
                    f,
                    indent=1,
                    default=repr,
                )
            print("VIOLATION property=%s replay=%s" % (pid, path))
            print("  what: %s  (signature %s, %d occurrences)" % (v.what, sig, agg.viol_counts[sig]))
        rc = 1
    inconc = list(agg.inconclusive)
    if rc == 0 and replay is None:
        for k, m in chk.min_required.items():
            if agg.stats.get(k, 0) < m:
                inconc.append("too few observations: %s=%d < %d" % (k, agg.stats.get(k, 0), m))
        if agg.evaluations == 0:
            inconc.append("no case was executed")
    verdict = "violated" if rc == 1 else ("inconclusive" if inconc else "held")
    if rc == 0 and inconc:
        rc = 2
        print("INCONCLUSIVE property=%s %s" % (pid, "; ".join(x[:500] for x in inconc[:5])))
    _write_evidence(chk, agg, notes, time.time() - t0, inconclusive=inconc, verdict=verdict, fresh=fresh, known=seen_known)
    if replay is None:
        print(
            "%s %s seed=%d: %s; %d cases, %d distinct non-trivial, %d violation signature(s) (%d known), %.1fs"
            % (pid, chk.tier, chk.seed, verdict, agg.evaluations, len(agg.keys), len(agg.violations), len(seen_known), time.time() - t0)
        )
    return rc


def _write_evidence(chk, agg, notes, wall, inconclusive=(), verdict="held", fresh=(), known=()):
    evaluations = agg.evaluations
    if chk.eval_stat and agg.stats.get(chk.eval_stat):
        evaluations = agg.stats[chk.eval_stat]
    cov = {
        "evaluations": evaluations,
        "cases_executed": agg.evaluations,
        "distinct_nontrivial": len(agg.keys),
        "rule": chk.rule,
        "samples": agg.samples[:3] or ["(none)"],
        "exhaustive": bool(chk.exhaustive),
        "nontrivial_cases": agg.nontrivial_cases,
        "observed": dict(sorted(agg.stats.items())),
        "distinct_observed": {k: len(v) for k, v in sorted(agg.sets.items())},
        "foreign_deviations": dict(agg.foreign.most_common(20)),
        "verdict": verdict,
        "inconclusive": list(inconclusive)[:20],
        "violation_signatures": [s for s, _ in fresh][:50],
        "known_findings_seen": [s for s, _ in known],
        "driver_cfg": chk.cfg,
        "repo": runner.REPO,
    }
    cov.update(notes)
    ev = {
        "property_id": chk.id,
        "tier": chk.tier,
        "seed": chk.seed,
        "level": chk.level,
        "coverage": cov,
        "assumptions": list(chk.assumptions),
        "wall_s": round(wall, 2),
        "violations": len(fresh),
    }
    path = os.path.join(EVIDENCE_DIR, chk.id + ".json")
    tmp = path + ".tmp"
    with open(tmp, "w") as f:
        json.dump(ev, f, indent=1, default=repr)
    os.replace(tmp, path)
