"""Sanitizer / interpreter runs of the same driver and script language (DESIGN.md 2.4):
ThreadSanitizer (-Zbuild-std), AddressSanitizer, valgrind memcheck, Miri. The event log of a
sanitizer run is judged by the same per-property judge; the tool's own report is a second channel."""
import collections
import concurrent.futures
import os
import re
import shutil
import subprocess
import time

from . import core, runner
from .core import Inconclusive, Violation

TARGET_TRIPLE = "x86_64-unknown-linux-gnu"


def _env(extra=None):
    env = dict(os.environ)
    env["CARGO_NET_OFFLINE"] = "true"
    env.pop("RUSTFLAGS", None)
    if extra:
        env.update(extra)
    return env


def _prep_driver():
    d, tag = runner._driver_dir()
    shutil.copyfile(os.path.join(runner.REPO, "Cargo.lock"), os.path.join(d, "Cargo.lock"))
    return d, tag


def build_sanitized(kind):
    """kind: 'tsan' | 'asan' -> binary path"""
    d, tag = _prep_driver()
    tdir = os.path.join(runner.TARGET, ("T" if kind == "tsan" else "S") + tag)
    if kind == "tsan":
        flags = "-Zsanitizer=thread -Cforce-frame-pointers=yes"
        cmd = ["cargo", "+nightly", "build", "--release", "--offline", "-Zbuild-std", "--target", TARGET_TRIPLE, "--features", "cfgM"]
    else:
        flags = "-Zsanitizer=address -Cforce-frame-pointers=yes"
        cmd = ["cargo", "+nightly", "build", "--release", "--offline", "--target", TARGET_TRIPLE, "--features", "cfgA"]
    env = _env({"RUSTFLAGS": flags, "CARGO_TARGET_DIR": tdir})
    p = subprocess.run(cmd, cwd=d, env=env, stdout=subprocess.PIPE, stderr=subprocess.STDOUT, text=True)
    if p.returncode != 0:
        raise Inconclusive("%s build failed: %s" % (kind, p.stdout[-1500:]))
    return os.path.join(tdir, TARGET_TRIPLE, "release", "vdriver")


def _reports(stderr, marker):
    """split sanitizer stderr into report blocks; signature = first frames inside /repo or the driver"""
    blocks = []
    cur = None
    for line in stderr.splitlines():
        if marker in line:
            cur = [line]
            blocks.append(cur)
        elif cur is not None:
            cur.append(line)
            if line.startswith("SUMMARY:"):
                cur = None
    out = []
    for b in blocks:
        frames = [re.sub(r"^\s*#\d+\s+0x[0-9a-f]+\s+in\s+", "", l) for l in b if re.match(r"^\s*#\d+", l)]
        inrepo = [f for f in frames if "/repo/" in f or "snow" in f or "vdriver" in f]
        sig = re.sub(r"0x[0-9a-f]+", "", (inrepo[0] if inrepo else (frames[0] if frames else b[0])))[:120]
        out.append((sig.strip(), "\n".join(b[:40])))
    return out


def _judge_all(chk, cases, log, stats, viols):
    parsed, open_case = runner.parse_log(log)
    for c in cases:
        evs = parsed.get(c.id)
        if evs is None:
            continue
        r = chk.judge(c, evs, None)
        stats.update(r.stats)
        for v in r.violations:
            v.case_text = c.text()
            v.desc = c.desc
            viols.append(v)
    return len([c for c in cases if c.id in parsed and c.id != open_case])


def run_tool(chk, tool):
    """-> {'note': str, 'stats': Counter, 'violations': [Violation]}"""
    t0 = time.time()
    stats = collections.Counter()
    viols = []
    wd = os.path.join(runner.WORK, chk.id, tool)
    os.makedirs(wd, exist_ok=True)
    cases = chk.san_cases(tool)
    if tool in ("tsan", "asan"):
        binary = build_sanitized(tool)
        opts = "halt_on_error=0 report_signal_unsafe=0" if tool == "tsan" else "halt_on_error=1 detect_leaks=0 abort_on_error=0"
        env = _env({("TSAN_OPTIONS" if tool == "tsan" else "ASAN_OPTIONS"): opts})
        marker = "WARNING: ThreadSanitizer" if tool == "tsan" else "ERROR: AddressSanitizer"
        shards = [cases[i::16] for i in range(16) if cases[i::16]]

        def one(args):
            i, cs = args
            text = "".join(c.text() for c in cs)
            return cs, runner.run_script(binary, text, wd, "%s%d" % (tool, i), timeout=1500, env=env)

        nrep = 0
        with concurrent.futures.ThreadPoolExecutor(max_workers=16) as ex:
            for cs, (rc, log, err) in ex.map(one, list(enumerate(shards))):
                done = _judge_all(chk, cs, log, stats, viols)
                stats[tool + "_cases_run"] += done
                reps = _reports(err, marker)
                nrep += len(reps)
                for sig, block in reps:
                    v = Violation("%s|%s|%s" % (chk.id, tool, sig), "%s report: %s" % (tool, sig), block)
                    v.case_text = "".join(c.text() for c in cs)[:20000]
                    viols.append(v)
                if rc == "timeout":
                    stats[tool + "_timeouts"] += 1
                elif rc not in (0, 66) and not reps:
                    # died without a report: an abort/segfault under the sanitizer build
                    v = Violation("%s|%s|death|rc=%s" % (chk.id, tool, rc), "%s build of the driver died (rc %s) without a sanitizer report" % (tool, rc), err[-2000:])
                    v.case_text = "".join(c.text() for c in cs)[:20000]
                    viols.append(v)
        stats[tool + "_reports"] += nrep
        note = "%s: %d cases in %d processes, %d report(s), %.0fs" % (tool, stats[tool + "_cases_run"], len(shards), nrep, time.time() - t0)
    elif tool == "valgrind":
        binary = runner.build_driver("A")
        shards = [cases[i::16] for i in range(16) if cases[i::16]]

        def one(args):
            i, cs = args
            text = "".join(c.text() for c in cs)
            return cs, runner.run_script(binary, text, wd, "vg%d" % i, timeout=2400, wrapper=["valgrind", "-q", "--error-exitcode=99", "--track-origins=no", "--num-callers=12"])

        nrep = 0
        with concurrent.futures.ThreadPoolExecutor(max_workers=16) as ex:
            for cs, (rc, log, err) in ex.map(one, list(enumerate(shards))):
                done = _judge_all(chk, cs, log, stats, viols)
                stats["valgrind_cases_run"] += done
                blocks = [b for b in re.split(r"\n(?===\d+== (?:Invalid|Conditional|Use of|Mismatched|Invalid free|Process terminating))", err) if re.search(r"== (Invalid|Conditional|Use of|Mismatched|Process terminating)", b)]
                for b in blocks:
                    fr = [l for l in b.splitlines() if " by 0x" in l or " at 0x" in l]
                    inrepo = [l for l in fr if "snow" in l or "vdriver" in l]
                    sig = re.sub(r"0x[0-9A-F]+:?", "", re.sub(r"==\d+==", "", (inrepo[0] if inrepo else (fr[0] if fr else b[:100])))).strip()[:120]
                    kind = re.search(r"== (Invalid \w+|Conditional jump|Use of uninitialised|Mismatched free|Process terminating)", b)
                    v = Violation("%s|valgrind|%s|%s" % (chk.id, kind.group(1) if kind else "?", sig), "memcheck: %s at %s" % (kind.group(1) if kind else "?", sig), b[:3000])
                    v.case_text = "".join(c.text() for c in cs)[:20000]
                    viols.append(v)
                    nrep += 1
                if rc == "timeout":
                    stats["valgrind_timeouts"] += 1
        stats["valgrind_reports"] += nrep
        note = "valgrind memcheck: %d cases, %d report(s), %.0fs" % (stats["valgrind_cases_run"], nrep, time.time() - t0)
    elif tool == "miri":
        d, tag = _prep_driver()
        tdir = os.path.join(runner.TARGET, "M" + tag)
        env0 = _env({"CARGO_TARGET_DIR": tdir})
        nseeds = len(cases)

        def miri(i, c, timeout):
            sp = os.path.join(wd, "m%d.script" % i)
            lp = os.path.join(wd, "m%d.log" % i)
            with open(sp, "w") as f:
                f.write(c.text())
            if os.path.exists(lp):
                os.unlink(lp)
            env = dict(env0)
            env["MIRIFLAGS"] = "-Zmiri-disable-isolation -Zmiri-seed=%d -Zmiri-preemption-rate=0.05" % i
            cmd = ["cargo", "+nightly", "miri", "run", "--offline", "--features", "cfgM", "--", sp, lp]
            try:
                p = subprocess.run(cmd, cwd=d, env=env, stdout=subprocess.PIPE, stderr=subprocess.PIPE, timeout=timeout)
                rc, err = p.returncode, p.stderr.decode("utf-8", "replace")
            except subprocess.TimeoutExpired as e:
                rc, err = "timeout", (e.stderr or b"").decode("utf-8", "replace")
            try:
                log = open(lp, errors="replace").read()
            except FileNotFoundError:
                log = ""
            return c, rc, log, err

        # warm-up (compiles the sysroot and the crate once), then the rest in parallel
        results = [miri(0, cases[0], 2400)]
        if results[0][1] not in (0,) and "error: Undefined Behavior" not in results[0][3] and "Data race" not in results[0][3] and not results[0][2]:
            raise Inconclusive("miri could not run the driver: %s" % results[0][3][-1500:])
        with concurrent.futures.ThreadPoolExecutor(max_workers=15) as ex:
            futs = [ex.submit(miri, i, cases[i], 1500) for i in range(1, nseeds)]
            for f in futs:
                results.append(f.result())
        nrep = 0
        for c, rc, log, err in results:
            done = _judge_all(chk, [c], log, stats, viols)
            stats["miri_cases_run"] += done
            m = re.search(r"error: (Undefined Behavior|unsupported operation|.*[Dd]ata race)[^\n]*", err)
            if m and "unsupported operation" not in m.group(0):
                loc = re.search(r"-->\s*(\S+)", err)
                sig = re.sub(r"alloc\d+|0x[0-9a-f]+", "", m.group(0))[:100] + "@" + (re.sub(r":\d+:\d+$", "", loc.group(1)) if loc else "?")
                v = Violation("%s|miri|%s" % (chk.id, sig), "Miri: %s" % m.group(0)[:200], err[-4000:])
                v.case_text = c.text()
                v.desc = c.desc
                viols.append(v)
                nrep += 1
            elif rc == "timeout":
                stats["miri_timeouts"] += 1
            elif rc != 0:
                stats["miri_nonzero_exit_without_ub"] += 1
                stats["miri_note_" + re.sub(r"\W+", "_", (m.group(0) if m else err[-80:]))[:60]] += 1
        stats["miri_reports"] += nrep
        note = "miri: %d seeds/cases interpreted, %d UB/race report(s), %.0fs" % (stats["miri_cases_run"], nrep, time.time() - t0)
    else:
        raise ValueError(tool)
    return {"note": note, "stats": stats, "violations": viols}
