"""Script construction for the driver and the shared deterministic generator."""
import hashlib


def hx(b):
    return b.hex() if b else "-"


def gen_bytes(seed, length, off=0):
    """same stream as the driver's gen_bytes: block i = SHA256(seed || i_le64)"""
    if isinstance(seed, str):
        seed = seed.encode()
    out = bytearray()
    blk = off // 32
    skip = off % 32
    while len(out) < length:
        d = hashlib.sha256(seed + blk.to_bytes(8, "little")).digest()
        out += d[skip:]
        skip = 0
        blk += 1
    return bytes(out[:length])


def script_rng_bytes(seed, inst, off, length):
    return gen_bytes("%s#%d" % (seed, inst), length, off)


def perw_rng_bytes(seed, epoch, off, length):
    return gen_bytes("%s/%d" % (seed, epoch), length, off)


class Case:
    """One self-contained driver case. `meta` carries whatever the judge needs to know about
    the ops (keyed by op label); `desc` is the picklable descriptor it was built from."""

    __slots__ = ("id", "lines", "nops", "meta", "desc", "info")

    def __init__(self, cid, desc=None):
        self.id = cid
        self.lines = []
        self.nops = 0
        self.meta = {}
        self.desc = desc
        self.info = {}

    def party(self, pid, role, name, res="D", rng="os", s=None, rs=None, e=None, prologue=None, psks=None, rec="r", dup=None):
        if isinstance(name, str):
            name = name.encode("utf-8")
        t = ["party", pid, "role=" + role, "name=" + hx(name), "res=" + res, "rng=" + rng, "rec=" + (rec or "-")]
        if s is not None:
            t.append("s=" + (s if isinstance(s, str) else hx(s)))
        if rs is not None:
            t.append("rs=" + (rs if isinstance(rs, str) else hx(rs)))
        if e is not None:
            t.append("e=" + (e if isinstance(e, str) else hx(e)))
        if prologue is not None:
            t.append("prologue=" + (prologue if isinstance(prologue, str) else hx(prologue)))
        if dup:
            t.append("dup=" + dup)  # call the builder setter twice (s, r, p, k)
        for k, v in sorted((psks or {}).items()):
            t.append("psk%d=%s" % (k, v if isinstance(v, str) else hx(v)))
        self.lines.append(" ".join(t))

    def reg(self, name, spec):
        self.lines.append("reg %s %s" % (name, spec))

    def op(self, op, pid=None, flags=(), **kw):
        t = [op]
        if pid is not None:
            t.append(pid)
        for k, v in kw.items():
            if v is None:
                continue
            if isinstance(v, (bytes, bytearray)):
                v = hx(v)
            t.append("%s=%s" % (k, v))
        t.extend(flags)
        self.lines.append(" ".join(t))
        lab = self.nops
        self.nops += 1
        return lab

    def conc(self, threads, ticks=True):
        """threads: list of lists of op tokens"""
        self.lines.append("conc threads=%d ticks=%d" % (len(threads), 1 if ticks else 0))
        for ops in threads:
            self.lines.append("thr " + " ".join(ops))
        self.lines.append("endconc")
        lab = self.nops
        self.nops += 1
        return lab

    def text(self):
        return "case %s\n%s\nend\n" % (self.id, "\n".join(self.lines))
