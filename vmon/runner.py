"""Builds the driver from /repo's current working tree and executes scripts in subprocesses with a
watchdog; parses event logs. A dead or hung driver is bisected down to the single case."""
import hashlib
import os
import shutil
import subprocess
import sys
import time

VERIF = os.path.dirname(os.path.dirname(os.path.abspath(__file__)))
REPO = os.environ.get("VERIF_REPO", "/repo")
TARGET = os.path.join(VERIF, ".target")
COV = bool(os.environ.get("VERIF_COV"))  # reach measurement: coverage-instrumented driver, diverted evidence
ALT = "" if REPO == "/repo" else "alt-" + hashlib.sha256(REPO.encode()).hexdigest()[:10]
if COV:
    ALT = (ALT or "alt") + "-cov"
# scratch; runs against a scratch copy of the repository (VERIF_REPO) get their own subtree so that
# they can run in parallel and never touch the evidence of the real tree
WORK = os.path.join(VERIF, ".work", ALT) if ALT else os.path.join(VERIF, ".work")


class Inconclusive(Exception):
    pass


class Event:
    __slots__ = ("label", "op", "party", "kv", "subs")

    def __init__(self, label, op, party, kv):
        self.label, self.op, self.party, self.kv, self.subs = label, op, party, kv, []

    @property
    def res(self):
        return self.kv.get("res", "")

    @property
    def ok(self):
        return self.kv.get("res", "").startswith("ok")

    @property
    def err(self):
        return self.kv.get("res", "").startswith("err:")

    @property
    def panic(self):
        return self.kv.get("res", "").startswith("panic:")

    @property
    def skipped(self):
        return self.kv.get("res", "").startswith("skipped")

    def oklen(self):
        r = self.kv.get("res", "")
        if r.startswith("ok:"):
            return int(r[3:])
        return None

    def errkind(self):
        r = self.kv.get("res", "")
        return r[4:] if r.startswith("err:") else None

    def obs(self):
        return {k[2:]: v for k, v in self.kv.items() if k.startswith("o.")}

    def __repr__(self):
        return "Event(%s %s %s %s)" % (self.label, self.op, self.party, self.kv.get("res"))


def _kv(tokens):
    d = {}
    for t in tokens:
        i = t.find("=")
        if i > 0:
            d[t[:i]] = t[i + 1:]
    return d


def parse_log(text):
    """-> (dict case id -> list[Event], open_case or None)  open_case: started but no `end`"""
    cases = {}
    cur = None
    cur_id = None
    ev = None
    for line in text.split("\n"):
        if not line:
            continue
        if line.startswith("ev "):
            t = line.split(" ")
            ev = Event(t[1], t[2], t[3], _kv(t[4:]))
            if cur is not None:
                cur.append(ev)
        elif line.startswith("  "):
            t = line.split()
            if ev is not None:
                ev.subs.append((t[0], t[1], _kv(t[2:])))
        elif line.startswith("case "):
            cur_id = line[5:].strip()
            cur = []
            cases[cur_id] = cur
            ev = None
        elif line == "end":
            cur = None
            cur_id = None
            ev = None
        elif line.startswith("bad "):
            if cur is not None:
                cur.append(Event("-", "bad", "-", {"res": "skipped:" + line}))
    return cases, cur_id


# ------------------------------------------------------------------ build

_FEATURES = {"A": "cfgA", "B": "cfgB", "D": "cfgD", "M": "cfgM"}


def _driver_dir():
    """the crate to build: /verif/driver, or a manifest copy when VERIF_REPO points elsewhere"""
    src = os.path.join(VERIF, "driver")
    if REPO == "/repo":
        return src, ""
    tag = hashlib.sha256(REPO.encode()).hexdigest()[:10]
    d = os.path.join(VERIF, ".work", "drv-" + tag)
    os.makedirs(d, exist_ok=True)
    man = open(os.path.join(src, "Cargo.toml")).read().replace('path = "/repo"', 'path = "%s"' % REPO)
    with open(os.path.join(d, "Cargo.toml"), "w") as f:
        f.write(man)
    link = os.path.join(d, "src")
    if not os.path.islink(link):
        os.symlink(os.path.join(src, "src"), link)
    return d, "-" + tag


def build_driver(cfg="A", quiet=True):
    """cargo build --release --offline from the current working tree; returns the binary path"""
    d, tag = _driver_dir()
    shutil.copyfile(os.path.join(REPO, "Cargo.lock"), os.path.join(d, "Cargo.lock"))
    tdir = os.path.join(TARGET, cfg + tag + ("-cov" if COV else ""))
    env = dict(os.environ)
    env["CARGO_NET_OFFLINE"] = "true"
    env["CARGO_TARGET_DIR"] = tdir
    cmd = ["cargo", "build", "--release", "--offline", "--features", _FEATURES[cfg]]
    if COV:
        cmd.insert(1, "+nightly")
        env["RUSTFLAGS"] = "-Cinstrument-coverage"
        # instrumented build scripts run with cwd = their package directory (/repo for snow): keep their profiles out of it
        env["LLVM_PROFILE_FILE"] = os.path.join(VERIF, ".work", "cov-build", "%p-%m.profraw")
    t0 = time.time()
    p = subprocess.run(cmd, cwd=d, env=env, stdout=subprocess.PIPE, stderr=subprocess.STDOUT, text=True)
    if p.returncode != 0:
        raise Inconclusive("driver build (cfg %s) failed:\n%s" % (cfg, p.stdout[-4000:]))
    if not quiet:
        print("built driver cfg %s in %.1fs" % (cfg, time.time() - t0), file=sys.stderr)
    return os.path.join(tdir, "release", "vdriver")


# ------------------------------------------------------------------ run


def run_script(binary, script_text, workdir, tag, timeout=300, wrapper=None, env=None):
    """-> (returncode or 'timeout', log text, stderr text)"""
    os.makedirs(workdir, exist_ok=True)
    sp = os.path.join(workdir, tag + ".script")
    lp = os.path.join(workdir, tag + ".log")
    with open(sp, "w") as f:
        f.write(script_text)
    if os.path.exists(lp):
        os.unlink(lp)
    cmd = (wrapper or []) + [binary, sp, lp]
    if COV:
        env = dict(env or os.environ)
        os.makedirs(os.path.join(VERIF, ".work", "cov"), exist_ok=True)
        env["LLVM_PROFILE_FILE"] = os.path.join(VERIF, ".work", "cov", "%p-%m.profraw")
    try:
        p = subprocess.run(cmd, stdout=subprocess.PIPE, stderr=subprocess.PIPE, timeout=timeout, env=env)
        rc = p.returncode
        err = p.stderr.decode("utf-8", "replace")
    except subprocess.TimeoutExpired as e:
        rc = "timeout"
        err = (e.stderr or b"").decode("utf-8", "replace")
    try:
        with open(lp, "r", errors="replace") as f:
            log = f.read()
    except FileNotFoundError:
        log = ""
    return rc, log, err


def run_cases(binary, cases, workdir, tag, timeout=300, wrapper=None, env=None, keep=False):
    """Execute cases (list of script.Case) in one driver process; when the driver dies or hangs,
    isolate the culprit case, re-run it alone to confirm, and carry on with the rest.
    -> (events: dict id -> list[Event], deaths: list of dict)"""
    events = {}
    deaths = []
    pending = list(cases)
    rounds = 0
    while pending:
        rounds += 1
        text = "".join(c.text() for c in pending)
        rc, log, err = run_script(binary, text, workdir, "%s.r%d" % (tag, rounds), timeout, wrapper, env)
        parsed, open_case = parse_log(log)
        if rc == 0 and open_case is None:
            events.update(parsed)
            break
        # find the culprit: the case that was started but not ended (or the first one not started)
        done_ids = [cid for cid in parsed if cid != open_case]
        for cid in done_ids:
            events[cid] = parsed[cid]
        idx = {c.id: i for i, c in enumerate(pending)}
        if open_case is not None and open_case in idx:
            culprit = pending[idx[open_case]]
        else:
            nxt = len(done_ids)
            if nxt >= len(pending):
                # everything completed but the exit status was bad (sanitizer exit code at the end?)
                deaths.append({"case": None, "rc": rc, "stderr": err[-2000:], "confirmed": False})
                break
            culprit = pending[nxt]
        # isolation re-run
        rc2, log2, err2 = run_script(binary, culprit.text(), workdir, "%s.iso%d" % (tag, rounds), max(60, timeout // 4), wrapper, env)
        p2, open2 = parse_log(log2)
        confirmed = not (rc2 == 0 and open2 is None)
        deaths.append(
            {
                "case": culprit.id,
                "rc": rc,
                "rc_isolated": rc2,
                "confirmed": confirmed,
                "stderr": (err2 or err)[-2000:],
                "partial": parsed.get(culprit.id, []),
            }
        )
        if not confirmed:
            events[culprit.id] = p2.get(culprit.id, [])
        pending = pending[idx[culprit.id] + 1:]
    if not keep:
        for fn in os.listdir(workdir):
            if fn.startswith(tag + "."):
                try:
                    os.unlink(os.path.join(workdir, fn))
                except OSError:
                    pass
    return events, deaths
