"""C18 built-in primitives match their standards. The resolver objects are driven directly (the way
snow drives them) and every output is compared with the model's primitives (pure Python written
from the standards, cross-checked with OpenSSL/libsodium and RFC vectors at start-up)."""
import random

from noiseref import prims, selftest

from .. import core
from ..script import Case, gen_bytes, hx
from ..shadow import decode_out, out_matches

HASHES = ["SHA256", "SHA512", "BLAKE2s", "BLAKE2b"]
CIPHERS = ["ChaChaPoly", "AESGCM", "XChaChaPoly"]
RING_HASH = ("SHA256", "SHA512")
RING_CIPHER = ("ChaChaPoly", "AESGCM")
NONCES = [0, 1, 255, 256, 2**16, 2**24, 2**32 - 1, 2**32, 2**40, 2**48, 2**56, 2**63, 2**64 - 2, 2**64 - 1] + [0xFF << (8 * i) for i in range(8)]
LENS = [0, 1, 15, 16, 17, 31, 32, 33, 63, 64, 65, 127, 128, 129, 255, 256, 257, 1000, 4095, 4096, 4097]
CHUNK = 120


class CheckC18(core.Check):
    id = "C18"
    level = "exploration"
    cfg = "A"
    rule = (
        "case = batch of direct calls on the objects the default and ring resolvers return: hash (0..3 blocks, chunked input), HMAC (keys 0..block "
        "length), Noise HKDF (1/2/3 outputs), AEAD encrypt/decrypt (boundary and random nonces incl. every single high byte set, AD and plaintext "
        "lengths around block boundaries up to 65519 and decryption of 65519..70000-byte plaintexts, objects keyed twice with keys sharing a prefix, genuine / tag-flipped / body-flipped / wrong-nonce / wrong-AD / truncated inputs), REKEY, "
        "X25519 and P-256 (RFC vectors, random, clamping cases, low-order / non-canonical / off-curve points), key generation with the OS RNG; "
        "each output compared with the model; distinct key = (backend, primitive, operation, input class); non-trivial = output compared"
    )
    assumptions = ["objects are driven the way snow drives them (reset/input*/result, 64-byte output buffers, HMAC keys <= block length)"]
    min_required = {"outputs_compared": 5000, "decrypt_rejections_checked": 500}
    cases_per_shard = 10
    eval_stat = "outputs_compared"

    def selftest(self):
        r = selftest.run_all(vectors=False)
        if not r["ok"]:
            raise core.Inconclusive("oracle self-test failed: %r" % (r,))
        return r

    def _ops(self):
        rnd = random.Random(self.seed * 256203161 + 18)
        quick = self.tier == "quick"
        mul = 20 if quick else 400
        ops = []  # (op, kwargs, expect-spec)
        for hn in HASHES:
            bl = prims.blocklen(hn)
            for res in ("D", "Ronly") if hn in RING_HASH else ("D",):
                for ln in sorted(set([0, 1, bl - 1, bl, bl + 1, 2 * bl - 1, 2 * bl, 2 * bl + 1, 3 * bl + 7] + [rnd.randrange(0, 3 * bl) for _ in range(6 * mul)])):
                    data = rnd.randbytes(ln)
                    chunks = ",".join(str(rnd.randrange(0, bl + 2)) for _ in range(rnd.randrange(0, 4)))
                    ops.append(("prim_hash", dict(res=res, choice=hn, data=data, chunks=chunks or None), ("hash", hn, data)))
                for _ in range(25 * mul):
                    k = rnd.randbytes(rnd.choice([0, 1, 16, 31, 32, 33, bl // 2, bl - 1, bl, prims.hashlen(hn)]))
                    d = rnd.randbytes(rnd.choice([0, 1, 32, 33, bl - 1, bl, bl + 1, 3 * bl]))
                    pre = rnd.randbytes(rnd.choice([1, 7, bl])) if rnd.random() < 0.3 else None
                    ops.append(("prim_hmac", dict(res=res, choice=hn, key=k, data=d, pre=pre), ("hmac", hn, k, d)))
                for _ in range(25 * mul):
                    ck = rnd.randbytes(prims.hashlen(hn))
                    ikm = rnd.randbytes(rnd.choice([0, 32, 56, 65, 1, 200]))
                    n = rnd.choice([1, 2, 3])
                    pre = rnd.randbytes(rnd.choice([1, 7, bl])) if rnd.random() < 0.3 else None
                    ops.append(("prim_hkdf", dict(res=res, choice=hn, ck=ck, ikm=ikm, n=n, pre=pre), ("hkdf", hn, ck, ikm, n)))
        for ci in CIPHERS:
            for res in ("D", "Ronly") if ci in RING_CIPHER else ("D",):
                for i in range(70 * mul):
                    key = rnd.randbytes(32)
                    n = rnd.choice(NONCES + [rnd.getrandbits(64)])
                    ad = rnd.randbytes(rnd.choice([0, 0, 1, 32, 64, 65]))
                    ptl = rnd.choice(LENS) if i % 9 else rnd.choice([65519, 20000])
                    pt = gen_bytes("pt%d%s" % (i, ci), ptl)
                    # every third object was keyed before, with a key that shares a prefix (or all but one byte) with the real one
                    key0 = None
                    if i % 3 == 0:
                        cut = rnd.choice([1, 8, 16, 31])
                        key0 = key[:cut] + rnd.randbytes(32 - cut)
                    ops.append(("prim_enc", dict(res=res, choice=ci, key=key, key0=key0, n=n, ad=ad, pt=pt if ptl <= 4097 else "gen:%d:pt%d%s" % (ptl, i, ci), slack=rnd.choice([0, 0, 7])), ("enc", ci, key, n, ad, pt)))
                    if ptl <= 4097:
                        ct = prims.aead_encrypt(ci, key, n, ad, pt)
                        var = rnd.choice(["genuine", "genuine", "tag", "body", "nonce", "ad", "trunc", "ext", "key"])
                        k2, n2, ad2, ct2 = key, n, ad, ct
                        if var == "tag":
                            b = bytearray(ct)
                            b[len(ct) - 1 - rnd.randrange(16)] ^= 1 << rnd.randrange(8)
                            ct2 = bytes(b)
                        elif var == "body" and ptl:
                            b = bytearray(ct)
                            b[rnd.randrange(ptl)] ^= 1 << rnd.randrange(8)
                            ct2 = bytes(b)
                        elif var == "nonce":
                            n2 = n ^ (1 << rnd.randrange(64))
                        elif var == "ad":
                            ad2 = ad + b"\x00" if rnd.random() < 0.5 or not ad else ad[:-1]
                        elif var == "trunc" and len(ct) > 16:
                            ct2 = ct[:-1]
                        elif var == "ext":
                            ct2 = ct + b"\x00"
                        elif var == "key":
                            k2 = bytes([key[0] ^ 1]) + key[1:]
                        # output buffers: exact, 1..15 spare bytes (ring's copy path with slack), message length, larger
                        buf = rnd.choice([len(ct2) - 16, len(ct2) - 16 + rnd.randrange(1, 16), len(ct2) - 16 + rnd.randrange(1, 16), len(ct2), len(ct2) + 9, 70000]) if len(ct2) >= 16 else 100
                        ops.append(("prim_dec", dict(res=res, choice=ci, key=k2, n=n2, ad=ad2, ct=ct2, buf=buf), ("dec", ci, k2, n2, ad2, ct2)))
                # decryption must invert encryption at every length - also beyond what a Noise message can carry
                for ptl in (65519, 65520, 65535, 65536, 70000):
                    key, n, ad = rnd.randbytes(32), rnd.choice(NONCES), rnd.randbytes(rnd.choice([0, 32]))
                    ct = prims.aead_encrypt(ci, key, n, ad, gen_bytes("bigpt%d%s" % (ptl, ci), ptl))
                    ops.append(("prim_dec", dict(res=res, choice=ci, key=key, n=n, ad=ad, ct=ct, buf=rnd.choice([ptl, ptl + 16, 140000])), ("dec", ci, key, n, ad, ct)))
                for i in range(8 * mul):
                    key = rnd.randbytes(32)
                    times = rnd.choice([1, 1, 2, 5])
                    pt = rnd.randbytes(rnd.choice([0, 5, 40]))
                    ops.append(("prim_rekey", dict(res=res, choice=ci, key=key, times=times, n=3, pt=pt), ("rekey", ci, key, times, pt)))
        H = bytes.fromhex
        special_u = [b"\x00" * 32, (1).to_bytes(32, "little"), H("e0eb7a7c3b41b8ae1656e3faf19fc46ada098deb9c32b1fd866205165f49b800"), H("5f9c95bca3508c24b1d0b1559c83ef5b04445cc4581c8e86d8224eddd09f1157"),
                     (2**255 - 19).to_bytes(32, "little"), (2**255 - 18).to_bytes(32, "little"), (2**255 - 1).to_bytes(32, "little"), b"\xff" * 32, (2**255 - 19 + 9).to_bytes(32, "little")]
        for i in range(40 * mul):
            priv = rnd.randbytes(32) if i > 3 else [b"\x00" * 32, b"\xff" * 32, H("a546e36bf0527c9d3b16154b82465edd62144c0ac1fc5a18506a2244ba449ac4"), H("77076d0a7318a57d3c16c17251b26645df4c2f87ebc0992ab177fba51db92c2a")][i]
            ops.append(("prim_dhpub", dict(res="D", choice="25519", priv=priv), ("dhpub", "25519", priv)))
            pub = special_u[i % len(special_u)] if i < 2 * len(special_u) else rnd.randbytes(32)
            ops.append(("prim_dh", dict(res="D", choice="25519", priv=priv, pub=pub), ("dh", "25519", priv, pub)))
        for i in range(30 * mul):
            priv = rnd.randbytes(32)
            while not prims.p256_valid_scalar(priv):
                priv = rnd.randbytes(32)
            ops.append(("prim_dhpub", dict(res="D", choice="P256", priv=priv), ("dhpub", "P256", priv)))
            other = rnd.randbytes(32)
            while not prims.p256_valid_scalar(other):
                other = rnd.randbytes(32)
            pub = prims.dh_pub("P256", other)
            v = i % 6
            if v == 1:
                b = bytearray(pub)
                b[1 + rnd.randrange(64)] ^= 1 << rnd.randrange(8)
                pub = bytes(b)
            elif v == 2:
                pub = b"\x02" + pub[1:]
            elif v == 3:
                pub = b"\x00" * 65
            elif v == 4:
                pub = b"\x04" + b"\xff" * 64
            ops.append(("prim_dh", dict(res="D", choice="P256", priv=priv, pub=pub), ("dh", "P256", priv, pub)))
        for dh in ("25519", "P256"):
            for _ in range(2 * mul):
                ops.append(("prim_dhgen", dict(res="D", choice=dh, count=100), ("dhgen", dh)))
        return ops

    def plan(self):
        self._all = self._ops()
        return [(i,) for i in range(0, len(self._all), CHUNK)]

    def build(self, desc):
        if not hasattr(self, "_all"):
            self._all = self._ops()
        i = desc[0]
        c = Case("prim-%d" % i, desc)
        sel = self._all[i:i + CHUNK]
        for op, kw, exp in sel:
            c.op(op, **kw)
        c.info = {"sel": sel}
        return c

    def judge(self, case, events, death):
        r = core.CaseResult()
        if death is not None:
            r.foreign_dev("C10", "driver died in a primitive call")
            return r
        sel = case.info["sel"]
        seen_pairs = self.__dict__.setdefault("_pairs", set())
        for e in events:
            if not e.label.isdigit():
                continue
            op, kw, exp = sel[int(e.label)]
            res = kw.get("res")
            kind = exp[0]
            if e.panic:
                r.viol("C18|panic|%s|%s|%s" % (kind, exp[1], res), "backend %s: %s on a well-formed input panicked: %s" % (res, op, e.res[:120]))
                continue
            if e.skipped or e.res == "none":
                r.inconclusive.append("primitive op not executed: %s %s" % (op, e.res))
                continue
            ok = True
            what = ""
            if kind == "hash":
                _, hn, data = exp
                ok = e.kv.get("out") == prims.hash_fn(hn, data).hex() and e.kv.get("hl") == str(prims.hashlen(hn)) and e.kv.get("bl") == str(prims.blocklen(hn)) and e.kv.get("nm") == hn
                what = "%s of %d bytes (chunks %s)" % (hn, len(data), kw.get("chunks"))
                cls = (res, "hash", hn, min(len(data) // prims.blocklen(hn), 3))
            elif kind == "hmac":
                _, hn, k, d = exp
                ok = e.kv.get("out") == prims.hmac_hash(hn, k, d).hex()
                what = "HMAC-%s key %d bytes data %d bytes" % (hn, len(k), len(d))
                cls = (res, "hmac", hn, len(k), len(d))
            elif kind == "hkdf":
                _, hn, ck, ikm, n = exp
                outs = prims.hkdf(hn, ck, ikm, n)
                for j, o in enumerate(outs):
                    ok = ok and e.kv.get("out%d" % (j + 1)) == o.hex()
                what = "HKDF-%s ikm %d bytes, %d outputs" % (hn, len(ikm), n)
                cls = (res, "hkdf", hn, len(ikm), n)
            elif kind == "enc":
                _, ci, key, n, ad, pt = exp
                ct = prims.aead_encrypt(ci, key, n, ad, pt)
                ok = e.res == "ok:%d" % len(ct) and out_matches(e, ct)[0] and e.kv.get("nm") == ci
                what = "%s encrypt nonce %d ad %d pt %d" % (ci, n, len(ad), len(pt))
                cls = (res, "enc", ci, _ncls(n), len(ad), len(pt))
            elif kind == "dec":
                _, ci, key, n, ad, ct = exp
                pt = prims.aead_decrypt(ci, key, n, ad, ct)
                buf = kw["buf"]
                if pt is None:
                    ok = e.err
                    r.stats["decrypt_rejections_checked"] += 1 if ok else 0
                    what = "%s decrypt of a non-genuine input returned %s" % (ci, e.res)
                else:
                    ok = e.res == "ok:%d" % len(pt) and out_matches(e, pt)[0]
                    what = "%s decrypt of a genuine input returned %s" % (ci, e.res)
                cls = (res, "dec", ci, _ncls(n), pt is None, len(ct))
            elif kind == "rekey":
                _, ci, key, times, pt = exp
                k = key
                for _ in range(times):
                    k = prims.rekey(ci, k)
                ct = prims.aead_encrypt(ci, k, 3, b"", pt)
                ok = out_matches(e, ct)[0]
                what = "%s REKEY x%d" % (ci, times)
                cls = (res, "rekey", ci, times)
            elif kind == "dhpub":
                _, dh, priv = exp
                pub = prims.dh_pub(dh, priv)
                ok = pub is not None and e.kv.get("pub") == pub.hex() and e.kv.get("priv") == priv.hex() and e.kv.get("pl") == str(prims.DH_PUBLEN[dh]) and e.kv.get("dl") == "32" and e.kv.get("nm") == dh
                what = "%s public key" % dh
                cls = (res, "dhpub", dh, priv[:1].hex())
            elif kind == "dh":
                _, dh, priv, pub = exp
                out = prims.dh_calc(dh, priv, pub)
                if out is None:
                    ok = e.err
                    what = "%s DH with an invalid point returned %s" % (dh, e.res)
                else:
                    ok = e.ok and e.kv.get("out") == out.hex()
                    what = "%s DH" % dh
                cls = (res, "dh", dh, pub[:2].hex(), out is None)
            else:
                _, dh = exp
                pairs = [p.split("/") for p in e.kv.get("pairs", "").split(",") if p]
                ok = len(pairs) == 100
                privs = set()
                for pr, pu in pairs:
                    pb = prims.dh_pub(dh, bytes.fromhex(pr))
                    ok = ok and pb is not None and pb.hex() == pu and pr not in privs and (dh, pr) not in seen_pairs
                    privs.add(pr)
                    seen_pairs.add((dh, pr))
                if ok and len(pairs) >= 2:
                    a, b2 = pairs[0], pairs[1]
                    ok = prims.dh_calc(dh, bytes.fromhex(a[0]), bytes.fromhex(b2[1])) == prims.dh_calc(dh, bytes.fromhex(b2[0]), bytes.fromhex(a[1]))
                r.stats["generated_keypairs_checked"] += len(pairs)
                what = "%s generated key pairs (consistent, distinct)" % dh
                cls = (res, "dhgen", dh, e.label)
            if not ok:
                r.viol("C18|%s|%s|%s" % (kind, exp[1], res), "backend %s: %s does not match the standard (driver said %s)" % (res, what, e.res[:60]))
                continue
            r.stats["outputs_compared"] += 1
            r.stats["compared_" + kind] += 1
            r.keys.add(cls)
            r.nontrivial = True
        return r


def _ncls(n):
    if n in (0, 1, 2**64 - 1, 2**64 - 2, 2**32, 2**32 - 1, 2**63):
        return n
    return "hi" if n >> 56 else ("mid" if n >> 32 else "lo")
