"""C14 framing: exact lengths, 65535 limit, Error::Input at the buffer / limit boundaries, short
reads fail. The oracle is the model's length arithmetic (field layout from the token table)."""
import random

from noiseref import prims
from noiseref.patterns import CIPHERS, DHS, HASHES, all_variants, make_name, overhead, parse_name_simple

from .. import core, sessions
from ..script import Case, gen_bytes
from ..shadow import Shadow

# write variants: (payload length, buffer length) as functions of (max payload, overhead)
W_VARIANTS = [
    ("p0-exact", lambda mx, ov: (0, ov)),
    ("p0-minus1", lambda mx, ov: (0, ov - 1)),
    ("p0-plus16", lambda mx, ov: (0, ov + 16)),
    ("p1-exact", lambda mx, ov: (1, ov + 1)),
    ("p1-minus1", lambda mx, ov: (1, ov)),
    ("p17-plus15", lambda mx, ov: (17, ov + 17 + 15)),
    ("p17-plus16", lambda mx, ov: (17, ov + 17 + 16)),
    ("p17-half", lambda mx, ov: (17, ov // 2)),
    ("p300-65535", lambda mx, ov: (300, 65535)),
    ("max-65535", lambda mx, ov: (mx, 65535)),
    ("max-70000", lambda mx, ov: (mx, 70000)),
    ("maxm1-65535", lambda mx, ov: (mx - 1, 65535)),
    ("maxp1-70000", lambda mx, ov: (mx + 1, 70000)),
    ("maxp1-65535", lambda mx, ov: (mx + 1, 65535)),
    ("p65535-70000", lambda mx, ov: (65535, 70000)),
    ("p70000-140000", lambda mx, ov: (70000, 140000)),
    ("p0-buf0", lambda mx, ov: (0, 0)),
]
# read variants applied to an honest message carrying a 40-byte payload
R_VARIANTS = ["exactbuf", "buf-1", "buf0", "trunc-fixed-1", "trunc-half", "trunc0", "oversize65536", "ext-to-65535", "bigbuf"]
T_VARIANTS = [
    ("w", 0, 16),
    ("w", 0, 15),
    ("w", 0, 0),
    ("w", 1, 17),
    ("w", 1, 16),
    ("w", 65519, 65535),
    ("w", 65519, 65534),
    ("w", 65520, 70000),
    ("w", 65519, 70000),
    ("w", 70000, 140000),
    ("w", 300, 316),
    ("w", 300, 315),
    ("r", 40, "exactbuf"),
    ("r", 40, "buf-1"),
    ("r", 0, "buf0"),
    ("r", 40, "trunc15"),
    ("r", 40, "trunc0"),
    ("r", 40, "oversize65536"),
    ("r", 65519, "exactbuf"),
    ("r", 65519, "buf-1"),
]


class CheckC14(core.Check):
    id = "C14"
    level = "exploration"
    cfg = "A"
    rule = (
        "case = fresh honest prefix up to message i (a third of the sessions with PSKs installed late through set_psk, or with a PSK the pattern never uses), then ONE boundary call (write with a payload/buffer pair, or read of a "
        "genuine message with a buffer/truncation/extension variant), judged by the model's length arithmetic; distinct key "
        "= (pattern+psk variant, DH, message index or transport mode, variant); non-trivial = the boundary call was reached "
        "and judged (must_ok with length compared, or must_err)"
    )
    assumptions = ["field layout derived from the independent token table; P-256 keys are 65 bytes, 25519 keys 32, tags 16"]
    min_required = {"boundary_calls_judged": 1000, "lengths_compared": 300, "input_errors_demanded": 200}
    cases_per_shard = 600

    def plan(self):
        rnd = random.Random(self.seed * 65537 + 14)
        descs = []
        variants = list(all_variants())
        for p, ps in variants:
            for dh in DHS:
                combos = [(rnd.choice(CIPHERS), rnd.choice(HASHES))] if self.tier == "quick" else [(c, h) for c in CIPHERS for h in HASHES]
                if self.tier != "quick":
                    combos = rnd.sample(combos, 6)
                for ci, ha in combos:
                    name = make_name(p, ps, dh, ci, ha)
                    nm = len(overhead(p, ps, 32))
                    for i in range(nm):
                        wv = range(len(W_VARIANTS)) if self.tier != "quick" else rnd.sample(range(len(W_VARIANTS)), 6)
                        for k in wv:
                            descs.append((name, rnd.getrandbits(24), "hw", i, k))
                        rv = range(len(R_VARIANTS)) if self.tier != "quick" else rnd.sample(range(len(R_VARIANTS)), 4)
                        for k in rv:
                            descs.append((name, rnd.getrandbits(24), "hr", i, k))
        names = [make_name(p, ps, rnd.choice(DHS), c, rnd.choice(HASHES)) for (p, ps) in rnd.sample(variants, 40 if self.tier == "quick" else 200) for c in CIPHERS]
        for name in names:
            for k in range(len(T_VARIANTS)):
                descs.append((name, rnd.getrandbits(24), rnd.choice(["t", "s"]), rnd.randrange(2), k))
        return descs

    def build(self, desc):
        name, seed, kind, i, k = desc
        parsed = parse_name_simple(name)
        keys = sessions.Keys(parsed, seed)
        c = Case("f-%s-%d-%s%d-%d" % (name, seed, kind, i, k), desc)
        # PSKs may be installed late (set_psk right before the message that needs them), and a pattern without psk modifier
        # may be given a PSK it never uses: neither changes a single length
        late = ((), ())
        if parsed.psks and seed % 3 == 0:
            late = (tuple(q for q in parsed.psks if (seed >> (3 + q)) & 1), tuple(q for q in parsed.psks if (seed >> (7 + q)) & 1))
        elif not parsed.psks and seed % 3 == 0:
            keys.psks = {seed % 4: gen_bytes("stray%d" % seed, 32)}
        sessions.add_pair(c, parsed, keys, rng=("script:%d" % seed, "script:%d" % (seed + 1)), rec=("r", "r"), late=late)
        publen = prims.DH_PUBLEN[parsed.dh]
        ovs = overhead(parsed.pattern, parsed.psks, publen)
        ids = ("A", "B")
        if kind in ("hw", "hr"):
            sessions.add_handshake(c, parsed, ["gen:3:p%d" % j for j in range(parsed.nmsgs)], upto=i, flags=("q",), late=late, keys=keys)
            for j in (0, 1):
                for q in sorted(late[j]):
                    if (q == 0 and i == 0) or (q > 0 and q - 1 == i):
                        c.op("set_psk", ids[j], loc=q, key=keys.psks[q])
            w, r = (ids[0], ids[1]) if i % 2 == 0 else (ids[1], ids[0])
            ov = ovs[i]
            mx = 65535 - ov
            if kind == "hw":
                vname, f = W_VARIANTS[k]
                pl, bl = f(mx, ov)
                pl, bl = max(0, pl), max(0, bl)
                c.meta["target"] = c.op("hs_write", w, pay="gen:%d:w" % pl, buf=bl, out="x")
                c.meta["follow"] = c.op("hs_read", r, msg="$x", buf=sessions.BIGBUF, flags=("q",))
                c.info = {"variant": vname}
            else:
                vname = R_VARIANTS[k]
                pl = 40
                c.op("hs_write", w, pay="gen:%d:w" % pl, buf=sessions.BIGBUF, out="x", flags=("q",))
                fixed = ov - (16 if self._payload_encrypted(parsed, i) else 0)
                msg, buf = self._read_variant(vname, "$x", pl, ov + pl, fixed)
                c.meta["target"] = c.op("hs_read", r, msg=msg, buf=buf)
                c.info = {"variant": vname}
        else:
            sessions.add_handshake(c, parsed, ["-"] * parsed.nmsgs, flags=("q",), late=late, keys=keys)
            stateless = kind == "s"
            sessions.add_convert(c, stateless=stateless)
            d = 0 if parsed.oneway else i
            w, r = (ids[0], ids[1]) if d == 0 else (ids[1], ids[0])
            tv = T_VARIANTS[k]
            wop, rop = ("st_write", "st_read") if stateless else ("t_write", "t_read")
            nn = {"n": 7} if stateless else {}
            if tv[0] == "w":
                c.meta["target"] = c.op(wop, w, pay="gen:%d:w" % tv[1], buf=tv[2], out="x", **nn)
                c.meta["follow"] = c.op(rop, r, msg="$x", buf=sessions.BIGBUF, flags=("q",), **nn)
            else:
                c.op(wop, w, pay="gen:%d:w" % tv[1], buf=sessions.BIGBUF, out="x", flags=("q",), **nn)
                msg, buf = self._read_variant(tv[2], "$x", tv[1], tv[1] + 16, 16)
                c.meta["target"] = c.op(rop, r, msg=msg, buf=buf, **nn)
            c.info = {"variant": "%s-%s-%s" % tv}
        c.info.update({"name": name, "key": (name.split("_")[1], parsed.dh, kind, i, c.info["variant"])})
        return c

    @staticmethod
    def _payload_encrypted(parsed, i):
        from noiseref.patterns import layout

        return layout(parsed.pattern, parsed.psks, 32)[i][1]

    @staticmethod
    def _read_variant(vname, reg, paylen, msglen, fixed):
        if vname == "exactbuf":
            return reg, paylen
        if vname == "buf-1":
            return reg, max(0, paylen - 1)
        if vname == "buf0":
            return reg, 0
        if vname == "bigbuf":
            return reg, 70000
        if vname == "trunc-fixed-1":
            return "%s~trunc:%d" % (reg, max(0, fixed - 1)), 70000
        if vname == "trunc-half":
            return "%s~trunc:%d" % (reg, fixed // 2), 70000
        if vname in ("trunc0",):
            return "%s~trunc:0" % reg, 70000
        if vname == "trunc15":
            return "%s~trunc:15" % reg, 70000
        if vname == "oversize65536":
            return "%s~ext:zero:%d" % (reg, 65536 - msglen), 70000
        if vname == "ext-to-65535":
            return "%s~ext:zero:%d" % (reg, 65535 - msglen), 70000
        raise ValueError(vname)

    def judge(self, case, events, death):
        r = core.CaseResult()
        name = case.info["name"]
        variant = name.split("_")[1]
        if death is not None:
            r.foreign_dev("C10", "driver died")
            return r
        sh = Shadow(case)
        views = sh.run(events)
        tgt = str(case.meta["target"])
        fol = str(case.meta.get("follow", -1))
        for v in views:
            e = v.ev
            mine = e.label in (tgt, fol)
            if e.label == tgt:
                if v.kind in ("must_ok", "must_err"):
                    r.stats["boundary_calls_judged"] += 1
                    r.nontrivial = True
                    r.keys.add(case.info["key"])
                    if v.kind == "must_ok" and not v.devs:
                        r.stats["lengths_compared"] += 1
                    if v.kind == "must_err" and v.expect[0] is not None and "Input" in v.expect[0]:
                        r.stats["input_errors_demanded"] += 1
                    elif v.kind == "must_err":
                        r.stats["short_or_small_buffer_errors_demanded"] += 1
                elif v.kind == "unspec":
                    r.stats["unspecified_zone"] += 1
            for d in v.devs:
                if mine and d.aspect == "res" and v.kind == "must_ok" and e.err and e.errkind() != "Input":
                    # C14 does not demand that a fitting call succeeds; only a false "does not fit" (Input) is a framing error
                    r.foreign_dev("C02", "valid %s failed with %s" % (d.op, e.errkind()))
                elif mine and d.aspect in ("len", "res", "errkind", "panic"):
                    # a wrong Ok/Err, a wrong length, a wrong error kind or a panic at the boundary call
                    r.viol(
                        "C14|%s|%s|%s|%s" % (d.aspect, d.op, case.info["variant"], "%s@%s" % core.panic_sig(d.res) if d.aspect == "panic" else ""),
                        "%s [%s]: %s %s: %s" % (name, case.info["variant"], d.op, d.label, d.msg),
                    )
                elif d.aspect == "len":
                    r.viol("C14|len|%s|prefix" % d.op, "%s: %s %s: %s" % (name, d.op, d.label, d.msg))
                else:
                    r.foreign_dev({"panic": "C10", "bytes": "C01", "payload": "C01", "obs.changed": "C07"}.get(d.aspect, "other"), "%s at %s" % (d.aspect, d.op))
        return r
