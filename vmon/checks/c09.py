"""C09 nonces count up by one; 2^64-1 is never used. Oracle: two counters per endpoint plus a
trace rule on the nonce argument the library hands to the AEAD (recording resolver)."""
import random

from noiseref.patterns import CIPHERS, DHS, HASHES, parse_name_simple

from .. import core, sessions
from ..script import Case

BIG = sessions.BIGBUF
MAXN = 2**64 - 1
DEC_FAULT_MAGIC = "decfa0177666"
ZEROS32_DIG = "32:" + __import__("hashlib").sha256(bytes(32)).hexdigest()[:16]
VALUES = [0, 1, 2, 2**32 - 1, 2**32, 2**63, MAXN - 3, MAXN - 2, MAXN - 1, MAXN]


class CheckC09(core.Check):
    id = "C09"
    level = "exploration"
    cfg = "A"
    rule = (
        "case = one session (stateful or stateless) driven through a random history of valid writes, writes into too-small buffers, genuine "
        "and garbage deliveries, deliveries the back end itself refuses with an error other than Decrypt (resolver `+df`), receiving-nonce settings and (hook) sending-nonce settings to boundary values (0, 1, 2^32-1, 2^32, 2^63, "
        "2^64-3..2^64-1, random), then more operations; oracle: getters equal the model counters after every op, an operation at 2^64-1 "
        "fails with State(Exhausted) and moves nothing, no enc/dec event (other than the REKEY event) ever carries nonce 2^64-1; distinct key = "
        "(cipher, backend, mode, role/direction, history); non-trivial = the history contains a boundary setting followed by >= 1 judged operation"
    )
    assumptions = ["stateful sender is placed next to the boundary through the add-only hook TransportState::verif_set_sending_nonce"]
    min_required = {"ops_judged": 20000, "exhaustion_errors_observed": 500, "cipher_events_checked": 20000}
    cases_per_shard = 400

    def plan(self):
        rnd = random.Random(self.seed * 198491317 + 9)
        n = 40000 if self.tier == "quick" else 1500000
        # `+df`: the back end's decrypt can fail for a reason of its own (Error::Input on ciphertexts starting with a magic prefix)
        return [(rnd.choice(CIPHERS), rnd.choice(["D", "R", "DR", "D+df", "R+df"]), rnd.choice(["tr", "tr", "sl"]), rnd.choice(["NN", "XX", "N", "IK"]), rnd.getrandbits(32)) for _ in range(n)]

    def build(self, desc):
        ci, be, mode, pat, seed = desc
        rnd = random.Random(seed)
        name = "Noise_%s_%s_%s_%s" % (pat, rnd.choice(DHS), ci, rnd.choice(HASHES))
        parsed = parse_name_simple(name)
        keys = sessions.Keys(parsed, seed)
        c = Case("nc-%s-%s-%s-%s-%d" % (ci, be, mode, pat, seed), desc)
        sessions.add_pair(c, parsed, keys, res=(be, be), rng=("script:%d" % seed, "script:%d" % (seed + 1)), rec=("c", "c"))
        sessions.add_handshake(c, parsed, ["-"] * parsed.nmsgs)
        st = mode == "sl"
        sessions.add_convert(c, stateless=st)
        steps = []  # (label, party, kind, info)
        # model for script construction: per direction d (0: A->B), sender counter sn[d], receiver counter rn[d]
        sn = [0, 0]
        rn = [0, 0]
        last = {}  # direction -> (register, nonce) of the last written message
        k = 0
        desync = False
        for _ in range(rnd.randrange(6, 30)):
            d = 0 if parsed.oneway else rnd.randrange(2)
            w, r = ("A", "B") if d == 0 else ("B", "A")
            a = rnd.choice(["w", "w", "wbad", "deliver", "deliver", "garbage", "short", "paybuf", "setrx", "settx", "setboth", "replay", "setrx_sender", "rekey", "rekey", "wbig"] + (["decfault"] * 3 if be.endswith("+df") else []))
            k += 1
            if st:
                n = rnd.choice(VALUES + [rnd.getrandbits(64)])
                if a in ("w", "deliver", "setrx", "settx", "setboth", "replay"):
                    lab = c.op("st_write", w, n=n, pay="gen:6:p%d" % k, buf=BIG, out="m%d" % k)
                    steps.append((lab, w, "st_write", n))
                    if n != MAXN:
                        lab = c.op("st_read", r, n=n, msg="$m%d" % k, buf=BIG)
                        steps.append((lab, r, "st_read_ok", n))
                        lab = c.op("st_read", r, n=MAXN, msg="$m%d" % k, buf=BIG)
                        steps.append((lab, r, "st_read_max", MAXN))
                elif a == "wbad":
                    lab = c.op("st_write", w, n=n, pay="gen:6:p%d" % k, buf=21)
                    steps.append((lab, w, "st_write_bad", n))
                elif a == "decfault":
                    lab = c.op("st_read", r, n=n, msg="lit:" + DEC_FAULT_MAGIC + "%080x" % rnd.getrandbits(320), buf=BIG)
                    steps.append((lab, r, "st_read_bad", n))
                else:
                    lab = c.op("st_read", r, n=n, msg="gen:%d:g%d" % (rnd.choice([40, 40, 15, 0]), k), buf=BIG)
                    steps.append((lab, r, "st_read_bad", n))
                continue
            if a == "w":
                lab = c.op("t_write", w, pay="gen:6:p%d" % k, buf=BIG, out="m%d" % k)
                steps.append((lab, w, "w", d))
                if sn[d] != MAXN:
                    last[d] = ("m%d" % k, sn[d])
                    sn[d] += 1
            elif a == "wbad":
                lab = c.op("t_write", w, pay="gen:6:p%d" % k, buf=21)
                steps.append((lab, w, "wbad", d))
            elif a == "wbig":
                # over the 65535 limit although the buffer would hold it: refused, the counter stays
                lab = c.op("t_write", w, pay="gen:%d:big" % rnd.choice([65520, 65535, 70000]), buf=140000)
                steps.append((lab, w, "wbad", d))
            elif a == "rekey":
                # rekeys never touch a counter - also not one that sits on 2^64-1
                which = rnd.choice(["sync", "out", "in", "manual"])
                if which in ("sync", "out"):
                    steps.append((c.op("rekey_out", w), w, "rekey", d))
                if which in ("sync", "in"):
                    steps.append((c.op("rekey_in", r), r, "rekey", d))
                if which == "manual":
                    kk = "%064x" % rnd.getrandbits(256)
                    for pid in (w, r):
                        steps.append((c.op("rekey_manual", pid, i=kk, r=kk), pid, "rekey", d))
                # whatever was written before under the old key can no longer be delivered
                last.pop(d, None)
                if which == "manual":
                    last.clear()
                if which in ("out", "in"):
                    desync = True  # keys now disagree: no further deliveries are scheduled
            elif a in ("deliver", "replay"):
                if d in last and not desync:
                    reg, mn = last[d]
                    lab = c.op("t_read", r, msg="$" + reg, buf=BIG)
                    acc = mn == rn[d] and rn[d] != MAXN
                    steps.append((lab, r, "deliver", (d, mn)))
                    if acc:
                        rn[d] += 1
            elif a == "garbage":
                lab = c.op("t_read", r, msg="gen:40:g%d" % k, buf=BIG)
                steps.append((lab, r, "garbage", d))
            elif a == "short":
                lab = c.op("t_read", r, msg="gen:%d:g%d" % (rnd.choice([0, 1, 15]), k), buf=BIG)
                steps.append((lab, r, "garbage", d))
            elif a == "decfault":
                # the cipher itself refuses this one, and not with Decrypt: a failed read all the same
                lab = c.op("t_read", r, msg="lit:" + DEC_FAULT_MAGIC + "%080x" % rnd.getrandbits(320), buf=BIG)
                steps.append((lab, r, "garbage", d))
            elif a == "paybuf":
                # a genuine, in-order message delivered into a payload buffer that is too small: refused, nothing moves
                if d in last and not desync:
                    reg, mn = last[d]
                    lab = c.op("t_read", r, msg="$" + reg, buf=rnd.choice([0, 5]))
                    steps.append((lab, r, "garbage", d))
            elif a == "setrx_sender":
                # the sender's own receiving counter (the other direction; unused for a one-way initiator)
                v = rnd.choice(VALUES + [rnd.getrandbits(64)])
                lab = c.op("set_rx_nonce", w, n=v)
                steps.append((lab, w, "setrx", (1 - d, v)))
                rn[1 - d] = v
            else:
                v = rnd.choice(VALUES + [rnd.getrandbits(64)])
                if a in ("setrx", "setboth"):
                    lab = c.op("set_rx_nonce", r, n=v)
                    steps.append((lab, r, "setrx", (d, v)))
                    rn[d] = v
                if a in ("settx", "setboth"):
                    lab = c.op("set_tx_nonce", w, n=v)
                    steps.append((lab, w, "settx", (d, v)))
                    sn[d] = v
                    last.pop(d, None)
        c.meta["steps"] = steps
        c.info = {"key": desc, "st": st, "oneway": parsed.oneway}
        return c

    def judge(self, case, events, death):
        r = core.CaseResult()
        if death is not None:
            r.foreign_dev("C10", "driver died")
            return r
        by = {e.label: e for e in events}
        key = case.info["key"]
        tag = "%s/%s/%s" % key[:3]
        # trace rule over every event of the case (handshake included)
        for e in events:
            for kind, sub, kv in e.subs:
                if kind == "c" and sub in ("enc", "dec"):
                    r.stats["cipher_events_checked"] += 1
                    if kv.get("n") == str(MAXN) and sub == "enc" and kv.get("ad", "-") == "-" and kv.get("pt") == ZEROS32_DIG:
                        # ENCRYPT(k, 2^64-1, "", 32 zero bytes) is the REKEY computation itself (spec 4.2), not a message
                        r.stats["rekey_computations_seen_at_the_trait"] += 1
                    elif kv.get("n") == str(MAXN):
                        r.viol("C09|reserved-nonce-used|%s|%s" % (sub, e.op), "%s: the reserved nonce 2^64-1 was handed to the AEAD (%s) during %s %s" % (tag, sub, e.op, e.label))
                        return r
        sn = {"A": 0, "B": 0}
        rn = {"A": 0, "B": 0}
        boundary_seen = False
        judged_after = 0
        for lab, p, kind, info in case.meta["steps"]:
            e = by.get(str(lab))
            if e is None or e.skipped:
                r.foreign_dev("C02", "session did not reach transport phase")
                return r
            if e.panic:
                at_max = (kind.startswith("st_") and info == MAXN) or (kind == "w" and sn.get(p) == MAXN) or (kind == "deliver" and rn.get(p) == MAXN)
                if at_max:
                    r.viol("C09|panic-at-max|%s" % e.op, "%s: %s at nonce 2^64-1 panicked instead of failing with State(Exhausted): %s" % (tag, e.op, e.res[:120]))
                else:
                    r.foreign_dev("C10", "panic in %s" % e.op)
                return r
            r.stats["ops_judged"] += 1
            if kind.startswith("st_"):
                n = info
                if n == MAXN and kind in ("st_write", "st_read_max", "st_write_bad", "st_read_bad"):
                    # a well-formed call at the reserved value must be refused with the exhaustion error
                    wellformed = kind in ("st_write", "st_read_max")
                    if e.ok:
                        r.viol("C09|max-accepted|%s" % e.op, "%s: stateless %s under nonce 2^64-1 returned %s" % (tag, e.op, e.res))
                        return r
                    if wellformed and e.errkind() != "State(Exhausted)":
                        r.viol("C09|max-errkind|%s|%s" % (e.op, e.errkind()), "%s: stateless %s under nonce 2^64-1 returned %s, not State(Exhausted)" % (tag, e.op, e.errkind()))
                        return r
                    r.stats["exhaustion_errors_observed"] += 1
                    boundary_seen = True
                elif kind in ("st_write", "st_read_ok"):
                    if not e.ok:
                        r.foreign_dev("C16", "stateless op under a valid nonce failed")
                        return r
                    if n >= MAXN - 3:
                        boundary_seen = True
                    judged_after += 1
                continue
            peer = "B" if p == "A" else "A"
            if kind == "w":
                if sn[p] == MAXN:
                    if e.ok:
                        r.viol("C09|max-accepted|t_write", "%s: stateful write at sending nonce 2^64-1 returned %s" % (tag, e.res))
                        return r
                    if e.errkind() != "State(Exhausted)":
                        r.viol("C09|max-errkind|t_write|%s" % e.errkind(), "%s: stateful write at sending nonce 2^64-1 returned %s" % (tag, e.errkind()))
                        return r
                    r.stats["exhaustion_errors_observed"] += 1
                else:
                    if not e.ok:
                        r.foreign_dev("C02", "valid transport write failed: %s" % e.res)
                        return r
                    sn[p] += 1
            elif kind == "deliver":
                d, mn = info
                if rn[p] == MAXN:
                    if e.ok:
                        r.viol("C09|max-accepted|t_read", "%s: stateful read at receiving nonce 2^64-1 returned %s" % (tag, e.res))
                        return r
                    if e.errkind() != "State(Exhausted)":
                        r.viol("C09|max-errkind|t_read|%s" % e.errkind(), "%s: stateful read at receiving nonce 2^64-1 returned %s" % (tag, e.errkind()))
                        return r
                    r.stats["exhaustion_errors_observed"] += 1
                elif mn == rn[p]:
                    if not e.ok:
                        r.foreign_dev("C05", "next message rejected")
                        return r
                    rn[p] += 1
                else:
                    if e.ok:
                        r.foreign_dev("C05", "out-of-order message accepted")
                        return r
            elif kind == "setrx":
                rn[p] = info[1]
                boundary_seen = boundary_seen or info[1] >= MAXN - 3
            elif kind == "settx":
                sn[p] = info[1]
                boundary_seen = boundary_seen or info[1] >= MAXN - 3
            elif kind in ("wbad", "garbage"):
                if e.ok:
                    r.foreign_dev("C14/C04", "invalid call succeeded")
                    return r
            o = e.obs()
            if o.get("sn") != str(sn[p]) or o.get("rn") != str(rn[p]):
                which = "sending" if o.get("sn") != str(sn[p]) else "receiving"
                r.viol(
                    "C09|counter|%s|%s|%s" % (which, kind, "ok" if e.ok else "err"),
                    "%s: after %s (%s -> %s) sending_nonce=%s receiving_nonce=%s; model %d / %d" % (tag, kind, e.op, e.res, o.get("sn"), o.get("rn"), sn[p], rn[p]),
                )
                return r
            r.stats["counter_snapshots_compared"] += 1
            if boundary_seen:
                judged_after += 1
        if boundary_seen and judged_after:
            r.nontrivial = True
        r.keys.add(key)
        return r
