"""C11 turn / phase / one-way state machine. Oracle: a tiny automaton (position, turn, finished,
phase, one-way) derived from the pattern's message count only. Exhaustive call sequences to a depth
bound from every reachable handshake position, both roles; random deeper ones on all patterns."""
import itertools
import random

from noiseref.patterns import CIPHERS, DHS, HASHES, PATTERN_NAMES, make_name, parse_name_simple, valid_psk_sets

from .. import core, sessions
from ..script import Case

HS_ACTIONS = ["W", "Wb", "R", "Rs", "Rg", "T", "S", "Tf", "Sf"]  # Tf/Sf: the public TryFrom conversions
TR_ACTIONS = ["tw", "twb", "tr", "trg"]
SHAPES = ["Noise_N_25519_ChaChaPoly_SHA256", "Noise_X_25519_AESGCM_SHA256", "Noise_NN_25519_ChaChaPoly_BLAKE2s", "Noise_XX_25519_ChaChaPoly_SHA256",
          "Noise_X1X1_25519_AESGCM_SHA512", "Noise_NNpsk0_25519_ChaChaPoly_SHA256", "Noise_XXpsk3_25519_XChaChaPoly_BLAKE2b", "Noise_Kpsk1_P256_ChaChaPoly_SHA256"]
BIG = sessions.BIGBUF


class Sim:
    """the automaton + script emitter for the party under test P and its cooperating peer Q"""

    def __init__(self, case, parsed, p_init, late=None):
        self.late = dict(late or {})  # psk index -> key, not given to P's builder: installed just before the message that needs it
        self.c = case
        self.n = parsed.nmsgs
        self.oneway = parsed.oneway
        self.p_init = p_init
        self.pos = 0
        self.phase = "hs"  # hs | tr | sl | gone
        self.q_phase = "hs"
        self.k = 0
        self.last = None
        self.inphase_failure = False
        self.sn = 0  # P's stateless send counter / Q's
        self.qn = 0
        self.exp = {}

    def turn(self):
        return (self.pos % 2 == 0) == self.p_init

    def fin(self):
        return self.pos == self.n

    def _note(self, lab, exp):
        self.exp[lab] = (exp, self.turn() if self.phase == "hs" else None, self.fin() if self.phase == "hs" else None, self.phase)

    def prefix(self, k0):
        for _ in range(k0):
            # the honest prefix is judged too (as in-phase valid calls), so that a session that is broken for another
            # reason is recognised before the automaton's expectations are applied to it
            if self.turn():
                self.act("W")
            else:
                self.act("R")

    def _late_psks(self, upto_all=False):
        """install the PSKs P needs for the message at the current position (all remaining ones if upto_all)"""
        for n in sorted(self.late):
            need = 0 if n == 0 else n - 1
            if upto_all or need == self.pos:
                self.c.op("set_psk", "P", loc=n, key=self.late.pop(n))

    def act(self, a, judged=True):
        c = self.c
        self.k += 1
        k = self.k
        if self.phase == "hs":
            if a in ("W", "R") and not self.fin() and ((a == "W") == self.turn()):
                self._late_psks()
            if a == "W":
                ok = self.turn() and not self.fin()
                lab = c.op("hs_write", "P", pay="gen:3:w%d" % k, buf=BIG, out="p%d" % k)
                if ok:
                    self.pos += 1
                    self.last = "p%d" % k
                    c.op("hs_read", "Q", msg="$p%d" % k, buf=BIG)
                    exp = "ok"
                else:
                    exp = self._werr()
                if judged:
                    self._note(lab, exp)
            elif a == "Wb":
                lab = c.op("hs_write", "P", pay="gen:3:w%d" % k, buf=0)
                if self.turn() and not self.fin():
                    exp = "fail"  # in phase but invalid: must fail, kind is C14's business
                    self.inphase_failure = True
                else:
                    exp = self._werr()
                self._note(lab, exp)
            elif a == "R":
                if not self.turn() and not self.fin():
                    c.op("hs_write", "Q", pay="gen:3:q%d" % k, buf=BIG, out="q%d" % k)
                    lab = c.op("hs_read", "P", msg="$q%d" % k, buf=BIG)
                    self.pos += 1
                    self.last = "q%d" % k
                    exp = "ok"
                else:
                    lab = c.op("hs_read", "P", msg=("$" + self.last) if self.last else "zero:48", buf=BIG)
                    exp = self._rerr()
                if judged:
                    self._note(lab, exp)
            elif a in ("Rs", "Rg"):
                msg = ("$" + self.last if self.last else "zero:48") if a == "Rs" else "gen:57:g%d" % k
                lab = c.op("hs_read", "P", msg=msg, buf=BIG)
                if not self.turn() and not self.fin():
                    exp = "nojudge-fail"  # in phase, invalid input: rejection is C03's business
                    self.inphase_failure = True
                else:
                    exp = self._rerr()
                self._note(lab, exp)
            else:
                op = "to_transport" if a[0] == "T" else "to_stateless"
                lab = c.op(op, "P", flags=("tf",) if a.endswith("f") else ())
                if self.fin():
                    self.phase = "tr" if a[0] == "T" else "sl"
                    exp = "ok"
                else:
                    self.phase = "gone"
                    exp = "err:State(HandshakeNotFinished)"
                self._note(lab, exp)
        elif self.phase in ("tr", "sl"):
            st = self.phase == "sl"
            if self.q_phase == "hs":
                c.op("to_transport", "Q")
                self.q_phase = "tr"
            if a in ("tw", "twb"):
                kw = {"n": self.sn} if st else {}
                lab = c.op("st_write" if st else "t_write", "P", pay="gen:5:t%d" % k, buf=BIG if a == "tw" else 3, out="x%d" % k, **kw)
                if self.oneway and not self.p_init:
                    exp = "err:State(OneWay)"
                elif a == "twb":
                    exp = "fail"
                    self.inphase_failure = True
                else:
                    exp = "ok"
                    self.sn += 1
                    c.op("t_read", "Q", msg="$x%d" % k, buf=BIG)
                self._note(lab, exp)
            elif a in ("tr", "trg"):
                kw = {"n": self.qn} if st else {}
                if self.oneway and self.p_init:
                    if st and k % 2 == 0:
                        kw = {"n": 2**64 - 1}
                    lab = c.op("st_read" if st else "t_read", "P", msg="gen:30:z%d" % k, buf=BIG, **kw)
                    exp = "err:State(OneWay)"
                elif a == "trg":
                    lab = c.op("st_read" if st else "t_read", "P", msg="gen:30:z%d" % k, buf=BIG, **kw)
                    exp = "nojudge-fail"
                    self.inphase_failure = True
                else:
                    c.op("t_write", "Q", pay="gen:5:u%d" % k, buf=BIG, out="y%d" % k)
                    lab = c.op("st_read" if st else "t_read", "P", msg="$y%d" % k, buf=BIG, **kw)
                    exp = "ok"
                    self.qn += 1
                self._note(lab, exp)

    def _werr(self):
        s = set()
        if not self.turn():
            s.add("State(NotTurnToWrite)")
        if self.fin():
            s.add("State(HandshakeAlreadyFinished)")
        return "err:" + "|".join(sorted(s))

    def _rerr(self):
        s = set()
        if self.turn():
            s.add("State(NotTurnToRead)")
        if self.fin():
            s.add("State(HandshakeAlreadyFinished)")
        return "err:" + "|".join(sorted(s))

    def finish(self):
        """after the sequence: the session must still work (out-of-phase calls had no effect)"""
        c = self.c
        if self.phase == "hs":
            self._late_psks(upto_all=True)
            a, b = ("P", "Q") if self.p_init else ("Q", "P")
            self.c.meta["final"] = ("pp", c.op("pingpong", a=a, b=b, max=8, plen=2, seed="fin"))
        elif self.phase in ("tr", "sl") and not (self.oneway and not self.p_init):
            if self.q_phase == "hs":
                c.op("to_transport", "Q")
                self.q_phase = "tr"
            st = self.phase == "sl"
            kw = {"n": self.sn} if st else {}
            c.op("st_write" if st else "t_write", "P", pay="gen:9:fin", buf=BIG, out="fin", **kw)
            self.c.meta["final"] = ("rd", c.op("t_read", "Q", msg="$fin", buf=BIG))


def sequences(parsed, p_init, k0, depth):
    """all action sequences of the given depth (phase-aware alphabet), as tuples"""
    out = []

    def rec(seq, pos, phase):
        if len(seq) == depth or phase == "gone":
            out.append(tuple(seq))
            return
        if phase == "hs":
            for a in HS_ACTIONS:
                npos, nphase = pos, phase
                turn = (pos % 2 == 0) == p_init
                fin = pos == parsed.nmsgs
                if a == "W" and turn and not fin:
                    npos += 1
                elif a == "R" and not turn and not fin:
                    npos += 1
                elif a in ("T", "S", "Tf", "Sf"):
                    nphase = ("tr" if a[0] == "T" else "sl") if fin else "gone"
                rec(seq + [a], npos, nphase)
        else:
            for a in TR_ACTIONS:
                rec(seq + [a], pos, phase)

    rec([], k0, "hs")
    return out


class CheckC11(core.Check):
    id = "C11"
    level = "exploration"
    cfg = "A"
    rule = (
        "case = one party driven through a call sequence (valid/invalid writes, reads of genuine/stale/garbage messages, conversions, "
        "transport reads/writes) from a reachable handshake position, peer played honestly as needed; every result and the turn / "
        "finished indicators after every op are compared with a position/turn automaton; afterwards the session must still complete; "
        "exhaustive to the depth bound on 8 pattern shapes x both roles x every start position, random deeper sequences on all patterns; "
        "distinct key = (name, role, start position, sequence); non-trivial = at least one out-of-phase call was judged"
    )
    assumptions = ["the automaton uses only the pattern's message count and one-way flag from the independent pattern table"]
    min_required = {"out_of_phase_calls_judged": 2000, "indicator_snapshots_compared": 5000}
    cases_per_shard = 500

    def plan(self):
        rnd = random.Random(self.seed * 49979687 + 11)
        depth = 4 if self.tier == "quick" else 5
        descs = []
        for name in SHAPES:
            parsed = parse_name_simple(name)
            for role in "ir":
                for k0 in range(parsed.nmsgs + 1):
                    for seq in sequences(parsed, role == "i", k0, depth):
                        descs.append((name, role, k0, "".join(a + "," for a in seq)))
                    if parsed.psks:
                        # the same party with its PSKs installed late (set_psk just before the message that needs them)
                        for seq in sequences(parsed, role == "i", k0, depth - 1):
                            descs.append((name, role, k0, "".join(a + "," for a in seq), "late"))
        self.exhaustive = True
        nrand = 4000 if self.tier == "quick" else 150000
        for _ in range(nrand):
            p = rnd.choice(PATTERN_NAMES)
            ps = rnd.choice(valid_psk_sets(p))
            name = make_name(p, ps, rnd.choice(DHS), rnd.choice(CIPHERS), rnd.choice(HASHES))
            descs.append((name, rnd.choice("ir"), 0, "rand:%d:%d" % (rnd.getrandbits(32), rnd.randrange(4, 13))))
        return descs

    def build(self, desc):
        name, role, k0, seqs = desc[:4]
        late = len(desc) > 4
        parsed = parse_name_simple(name)
        keys = sessions.Keys(parsed, 5)
        c = Case("sm-%s-%s-%d-%s%s" % (name, role, k0, seqs.replace(",", "."), "-late" if late else ""), desc)
        p_init = role == "i"
        ids = ("P", "Q") if p_init else ("Q", "P")
        lateset = tuple(parsed.psks) if late else ()
        sessions.add_pair(c, parsed, keys, rng=("script:1", "script:2"), rec=("-", "-"), ids=ids, late=(lateset, ()) if p_init else ((), lateset))
        # control: an undisturbed session of the same configuration must complete (else nothing below is C11's doing)
        sessions.add_pair(c, parsed, keys, rng=("script:1", "script:2"), rec=("-", "-"), ids=("P2", "Q2") if p_init else ("Q2", "P2"))
        c.meta["control"] = c.op("pingpong", a="P2" if p_init else "Q2", b="Q2" if p_init else "P2", max=8, plen=2, seed="ctl")
        sim = Sim(c, parsed, p_init, late={n: keys.psks[n] for n in lateset})
        sim.prefix(k0)
        if seqs.startswith("rand:"):
            _, sd, ln = seqs.split(":")
            rnd = random.Random(int(sd))
            for _ in range(int(ln)):
                if sim.phase == "gone":
                    break
                if sim.phase == "hs":
                    # bias towards progress so deep states are reached
                    a = rnd.choice(HS_ACTIONS + ["W", "R", "W", "R"] + (["T", "S", "Tf", "Sf"] if sim.fin() else []))
                else:
                    a = rnd.choice(TR_ACTIONS)
                sim.act(a)
        else:
            for a in seqs.split(","):
                if a:
                    sim.act(a)
        sim.finish()
        c.meta["exp"] = sim.exp
        c.meta["inphase_failure"] = sim.inphase_failure
        c.info = {"name": name, "key": (name, role, k0, seqs, late)}
        return c

    def judge(self, case, events, death):
        r = core.CaseResult()
        name = case.info["name"]
        if death is not None:
            r.foreign_dev("C10", "driver died")
            return r
        exp = case.meta["exp"]
        oop = 0
        ctl = [e for e in events if e.label == str(case.meta.get("control")) and e.op == "pingpong"]
        if not ctl or ctl[0].res != "done:bothfin":
            r.foreign_dev("C02", "an undisturbed session of this configuration does not complete")
            return r
        for e in events:
            if not e.label.isdigit() or int(e.label) not in exp:
                if e.party == "Q" and e.label.isdigit() and (e.err or e.panic) and e.op != "pingpong":
                    r.foreign_dev("C02", "peer's honest step failed: %s" % e.res)
                    return r
                continue
            want, turn, fin, phase = exp[int(e.label)]
            if e.panic:
                if want == "ok" or want.startswith("err:"):
                    # the result of this call is C11's own predicate: a panic is neither Ok nor the documented state error
                    r.viol("C11|panic|%s|%s" % (e.op, want), "%s: %s (op %s) panicked where %s was due: %s" % (name, e.op, e.label, want, e.res[:120]))
                else:
                    r.foreign_dev("C10", "panic at %s" % e.op)
                return r
            if e.skipped:
                r.inconclusive.append("op %s of case %s was skipped (%s): generator out of sync" % (e.label, case.id, e.res))
                return r
            o = e.obs()
            if want == "ok":
                if not e.ok:
                    if e.errkind().startswith("State("):
                        r.viol("C11|refused|%s|%s" % (e.op, e.res), "%s: in-phase valid %s (op %s) refused with the state error %s" % (name, e.op, e.label, e.res))
                    else:
                        # refused for a cryptographic / framing reason: not the state machine's doing
                        r.foreign_dev("C02", "in-phase valid %s failed with %s" % (e.op, e.errkind()))
                    return r
                r.stats["in_phase_calls_judged"] += 1
            elif want.startswith("err:"):
                kinds = want[4:].split("|")
                if e.ok:
                    r.viol("C11|accepted|%s|%s" % (e.op, want[4:]), "%s: out-of-phase %s (op %s) succeeded; %s was due" % (name, e.op, e.label, want[4:]))
                    return r
                if e.errkind() not in kinds:
                    r.viol("C11|errkind|%s|%s|%s" % (e.op, e.errkind(), want[4:]), "%s: out-of-phase %s returned %s; the documented state error is %s" % (name, e.op, e.errkind(), want[4:]))
                    return r
                oop += 1
                r.stats["out_of_phase_calls_judged"] += 1
            else:
                if e.ok:
                    # e.g. garbage read as an all-cleartext message: unspecified for C11, the sequence is no longer comparable
                    r.stats["in_phase_invalid_accepted_unjudged"] += 1
                    return r
                r.stats["in_phase_invalid_calls"] += 1
            if phase == "hs" and o.get("st") == "hs":
                # indicators after the op (the automaton has already been advanced by the generator)
                if o.get("turn") != str(int(turn)) or o.get("fin") != str(int(fin)):
                    r.viol(
                        "C11|indicator|%s|%s" % (e.op, "turn" if o.get("turn") != str(int(turn)) else "finished"),
                        "%s: after %s (op %s, %s) is_my_turn=%s is_handshake_finished=%s; the pattern and the messages processed imply %d / %d"
                        % (name, e.op, e.label, e.res, o.get("turn"), o.get("fin"), turn, fin),
                    )
                    return r
                r.stats["indicator_snapshots_compared"] += 1
        fin_ = case.meta.get("final")
        if fin_:
            kind, lab = fin_
            evs = [e for e in events if e.label.split(".")[0] == str(lab)]
            good = False
            if kind == "pp":
                done = [e for e in evs if e.op == "pingpong"]
                good = bool(done) and done[0].res == "done:bothfin"
            else:
                good = bool(evs) and evs[0].ok
            if not good:
                if case.meta["inphase_failure"]:
                    r.foreign_dev("C07", "session unusable after an in-phase failed call")
                elif oop:
                    r.viol("C11|effect|%s" % kind, "%s: after out-of-phase calls (all refused) the session no longer completes: %s" % (name, [e.res for e in evs][-3:]))
                else:
                    r.foreign_dev("C02", "session did not complete")
                return r
            r.stats["sessions_completed_afterwards"] += 1
        if oop:
            r.nontrivial = True
            r.keys.add(case.info["key"])
        return r
