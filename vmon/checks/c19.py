"""C19 a rejected message never leaks decrypted plaintext: after a failed authenticated read the
caller's output buffer (dumped by the driver) is compared with the known random payload."""
import random

from noiseref import prims
from noiseref.patterns import layout, parse_name_simple

from .. import core, sessions
from ..script import Case, gen_bytes

BIG = sessions.BIGBUF
CIPHERS = ["ChaChaPoly", "AESGCM", "XChaChaPoly"]
BACKENDS = ["D", "R", "DR"]
PATHS = ["hs", "tr", "sl"]
ALTS = ["tagbit", "tagall", "bodybit", "bodyrange", "lastbodybyte", "firstbodybyte"]
BUFS = ["exact", "msglen", "between", "big"]


class CheckC19(core.Check):
    id = "C19"
    level = "exploration"
    cfg = "A"
    rule = (
        "case = batch of sessions; in each, one genuine message carrying a >= 32-byte random payload is altered in its tag or in part of its "
        "body and read through the handshake / stateful / stateless path into a pattern-filled output buffer of size exact / message length "
        "(selects ring's in-place path) / in between / 65535; the read must fail, and the dumped buffer must not hold the payload at the "
        "positions whose ciphertext was not altered (>= 16 consecutive matching bytes = leak) nor - handshake path - 16 bytes of a static public key the rejected message carried encrypted; every cipher x {default, ring-first, default-first} "
        "x path x alteration x buffer size; distinct key = that tuple + payload length; non-trivial = the read failed and the buffer was inspected"
    )
    assumptions = ["payloads are >= 32 pseudo-random bytes, so an accidental 16-byte match has probability <= 2^-128"]
    min_required = {"rejected_reads_inspected": 600}
    cases_per_shard = 8
    eval_stat = "rejected_reads_inspected"

    def plan(self):
        rnd = random.Random(self.seed * 275604541 + 19)
        descs = []
        reps = 10 if self.tier == "quick" else 400
        for ci in CIPHERS:
            for be in BACKENDS:
                for path in PATHS:
                    for _ in range(reps):
                        descs.append((ci, be, path, rnd.getrandbits(24)))
        return descs

    def build(self, desc):
        ci, be, path, seed = desc
        rnd = random.Random(seed)
        # handshake path: also deferred patterns, where the payload is sealed under a nonce >= 1 of a key that already
        # sealed a static key; transport paths: also a one-way pattern
        pat, kmsg = rnd.choice([("NN", 1), ("NX1", 1), ("XX1", 1), ("X1X1", 2), ("IK", 0), ("XX", 1)]) if path == "hs" else (rnd.choice(["NN", "N", "X", "XX"]), None)
        name = "Noise_%s_25519_%s_SHA256" % (pat, ci)
        parsed = parse_name_simple(name)
        keys = sessions.Keys(parsed, seed)
        c = Case("pl-%s-%s-%s-%d" % (ci, be, path, seed), desc)
        subs = []
        j = 0
        for alt in ALTS:
            for bufk in BUFS:
                plen = rnd.choice([32, 33, 64, 100, 257, 1000])
                a, b = "A%d" % j, "B%d" % j
                sessions.add_pair(c, parsed, keys, res=(be, be), rng=("script:%d" % seed, "script:%d" % (seed + 1)), rec=("-", "-"), ids=(a, b))
                pay = "gen:%d:secret%d.%d" % (plen, seed, j)
                if path == "hs":
                    sessions.add_handshake(c, parsed, ["-"] * parsed.nmsgs, ids=(a, b), flags=("q",), prefix="h%d_" % j, upto=kmsg)
                    w_, r_ = (a, b) if kmsg % 2 == 0 else (b, a)
                    c.op("hs_write", w_, pay=pay, buf=BIG, out="g%d" % j, flags=("q",))
                    fields, hk, off = layout(parsed.pattern, parsed.psks, prims.DH_PUBLEN[parsed.dh])[kmsg]
                    body0 = off  # key fields (with their tags), then the encrypted payload
                    reader, rop, kw = r_, "hs_read", {}
                else:
                    sessions.add_handshake(c, parsed, ["-"] * parsed.nmsgs, ids=(a, b), flags=("q",), prefix="h%d_" % j)
                    sessions.add_convert(c, ids=(a, b), stateless=(path == "sl"))
                    kw = {"n": 5} if path == "sl" else {}
                    c.op("st_write" if path == "sl" else "t_write", a, pay=pay, buf=BIG, out="g%d" % j, flags=("q",), **kw)
                    body0 = 0
                    reader, rop = b, ("st_read" if path == "sl" else "t_read")
                total = body0 + plen + 16
                if alt == "tagbit":
                    mut, altered = "~flip:%d" % ((total - 1 - rnd.randrange(16)) * 8 + rnd.randrange(8)), set()
                elif alt == "tagall":
                    mut, altered = "~xor:%d:%s" % (total - 16, "ff" * 16), set()
                elif alt == "bodybit":
                    pos = rnd.randrange(plen)
                    mut, altered = "~flip:%d" % ((body0 + pos) * 8 + rnd.randrange(8)), {pos}
                elif alt == "bodyrange":
                    st = rnd.randrange(0, plen - 8)
                    ln = rnd.randrange(1, 9)
                    mut, altered = "~xor:%d:%s" % (body0 + st, "a5" * ln), set(range(st, st + ln))
                elif alt == "lastbodybyte":
                    mut, altered = "~xor:%d:01" % (body0 + plen - 1), {plen - 1}
                else:
                    mut, altered = "~xor:%d:80" % body0, {0}
                msglen = total - body0  # ciphertext+tag handed to the AEAD
                buf = {"exact": plen, "msglen": msglen, "between": plen + rnd.randrange(1, 16), "big": 65535}[bufk]
                lab = c.op(rop, reader, msg="$g%d%s" % (j, mut), buf=buf, dump=max(plen + 16, 96), fill=rnd.choice([0, 0xA5, 0xFF]), **kw)
                subs.append((lab, alt, bufk, plen, "secret%d.%d" % (seed, j), sorted(altered)))
                j += 1
        c.meta["subs"] = subs
        c.info = {"key": (ci, be, path), "pat": pat, "statics": [keys.pub_i.hex(), keys.pub_r.hex()]}
        return c

    def judge(self, case, events, death):
        r = core.CaseResult()
        if death is not None:
            r.foreign_dev("C10", "driver died")
            return r
        ci, be, path = case.info["key"]
        by = {e.label: e for e in events}
        for lab, alt, bufk, plen, sd, altered in case.meta["subs"]:
            e = by.get(str(lab))
            if e is None or e.skipped:
                r.foreign_dev("C02", "session did not reach the read")
                continue
            if e.panic:
                r.foreign_dev("C10", "read panicked")
                continue
            if e.ok:
                r.foreign_dev("C03/C04", "altered message accepted")
                continue
            dump = e.kv.get("buf", "-")
            buf = bytes.fromhex(dump) if dump != "-" else b""
            pay = gen_bytes(sd, plen)
            alt_set = set(altered)
            run = best = 0
            for i in range(min(len(buf), plen)):
                if i in alt_set:
                    run = 0
                    continue
                if buf[i] == pay[i]:
                    run += 1
                    best = max(best, run)
                else:
                    run = 0
            # the other decrypted plaintext of a handshake message: an encrypted static key (anywhere in the buffer)
            leaked = None
            for sp in case.info.get("statics", []):
                spb = bytes.fromhex(sp)
                for o in range(0, len(spb) - 15):
                    if spb[o:o + 16] in buf:
                        leaked = sp
                        break
            if leaked and path == "hs":
                r.viol(
                    "C19|leak-static|%s|%s|%s" % (ci, be, bufk),
                    "%s backend %s, handshake read (%s), %s alteration, %s output buffer: after %s the caller's buffer holds the decrypted static public key carried by the rejected message"
                    % (ci, be, case.info.get("pat"), alt, bufk, e.res),
                )
                continue
            r.stats["rejected_reads_inspected"] += 1
            r.stats["buffer_bytes_inspected"] += min(len(buf), plen)
            if best >= 16:
                r.viol(
                    "C19|leak|%s|%s|%s|%s" % (ci, be, path, bufk),
                    "%s backend %s, %s read, %s alteration, %s output buffer: after %s the caller's buffer holds %d consecutive bytes of the rejected message's plaintext"
                    % (ci, be, path, alt, bufk, e.res, best),
                )
                continue
            r.nontrivial = True
            r.keys.add((ci, be, path, case.info.get("pat"), alt, bufk, plen))
        return r
