"""C16 stateless transport is a pure function of keys, nonce and input - sequentially in any order,
concurrently from many threads; st_write(n) == n-th message of a stateful twin. Each op's expected
result is independent of the schedule, so concurrent histories need no linearizability search.
Thorough adds ThreadSanitizer (-Zbuild-std) and Miri (many seeds) on the pure-Rust back end."""
import collections
import hashlib
import os
import random
import shutil
import subprocess
import time

from noiseref import prims
from noiseref.patterns import CIPHERS, DHS, HASHES, parse_name_simple

from .. import core, runner, sessions
from ..script import Case, gen_bytes
from ..shadow import decode_out

BIG = sessions.BIGBUF
MAXN = 2**64 - 1
NONCES = [0, 1, 2, 3, 2**32 - 1, 2**32, 2**63, MAXN - 1]


def dig(b):
    return "%d:%s" % (len(b), hashlib.sha256(b).digest()[:8].hex())


class CheckC16(core.Check):
    id = "C16"
    level = "exploration"
    cfg = "A"
    rule = (
        "case = two identical scripted sessions: pair 1 converted to stateless mode (driven sequentially in ascending / descending / random / "
        "repeated nonce order, then from 2-16 threads on the shared object with yields and spins between calls), pair 2 a recorded stateful twin "
        "that supplies the transport keys and the n-th messages; oracle per op: st_write(n, p) == model AEAD(k_dir, n, p) == twin's n-th message, "
        "st_read(n, that message) == p, whatever the order, repetition or thread - also after the same rekey operations (spec REKEY, the back end's own REKEY, manual keys singly or both in one call) on both pairs; distinct key = (cipher, backend, pattern class, op list digest); "
        "interleaving signatures (global completion order of the threads) are counted; non-trivial = >= 1 concurrent block or >= 1 out-of-order/repeated op judged"
    )
    assumptions = [
        "recording is switched off on the concurrently used objects so the monitor adds no synchronisation; keys come from the recorded twin",
        "TSan/Miri (thorough) cover the pure-Rust back end only (no FFI under Miri; ring's assembly is not instrumented)",
    ]
    min_required = {"stateless_ops_judged": 20000, "concurrent_ops_judged": 10000, "twin_messages_compared": 300}
    cases_per_shard = 40
    shard_timeout = 900

    def plan(self):
        rnd = random.Random(self.seed * 236887691 + 16)
        n = 480 if self.tier == "quick" else 8000
        return [(rnd.choice(CIPHERS), rnd.choice(["D", "R", "DR", "D+rk"]), rnd.choice(["NN", "XX", "N", "IKpsk2"]), rnd.getrandbits(32)) for _ in range(n)]

    def build(self, desc, small=False, threads=None, rec_twin="c"):
        ci, be, pat, seed = desc
        rnd = random.Random(seed)
        name = "Noise_%s_%s_%s_%s" % (pat, "25519", ci, rnd.choice(HASHES))
        parsed = parse_name_simple(name)
        keys = sessions.Keys(parsed, seed)
        c = Case("sl-%s-%s-%s-%d" % (ci, be, pat, seed), desc)
        for ids, rec in ((("A", "B"), "-"), (("A2", "B2"), rec_twin)):
            sessions.add_pair(c, parsed, keys, res=(be, be), rng=("script:%d" % seed, "script:%d" % (seed + 1)), rec=(rec, rec), ids=ids)
            sessions.add_handshake(c, parsed, ["-"] * parsed.nmsgs, ids=ids, prefix="h" + ids[0])
        sessions.add_convert(c, ids=("A", "B"), stateless=True)
        sessions.add_convert(c, ids=("A2", "B2"), stateless=False)
        dirs = [0] if parsed.oneway else [0, 1]
        # (1) stateful twin: messages 0..T-1 in each direction
        T = 3 if small else 8
        twin = []
        for d in dirs:
            w, r = ("A2", "B2") if d == 0 else ("B2", "A2")
            for n in range(T):
                lab = c.op("t_write", w, pay="gen:%d:tw%d.%d" % (7 + n, d, n), buf=BIG, out="tw%d_%d" % (d, n))
                c.op("t_read", r, msg="$tw%d_%d" % (d, n), buf=BIG, flags=("q",))
                twin.append((lab, d, n))
        # (2) sequential stateless ops in hostile orders
        seq = []
        order = list(range(T))
        orders = [order, order[::-1], rnd.sample(order, T), [rnd.randrange(T) for _ in range(T)]]
        if small:
            orders = orders[2:3]
        for od in orders:
            for n in od:
                for d in dirs:
                    w, r = ("A", "B") if d == 0 else ("B", "A")
                    lab = c.op("st_write", w, n=n, pay="gen:%d:tw%d.%d" % (7 + n, d, n), buf=BIG, out="s%d_%d" % (d, n))
                    seq.append((lab, "w", d, n, "tw%d.%d" % (d, n), 7 + n))
                    # payload buffers: exactly the payload length (ring's copy path) or large (in-place path)
                    lab = c.op("st_read", r, n=n, msg="$tw%d_%d" % (d, n), buf=rnd.choice([BIG, 7 + n, 7 + n, 7 + n + rnd.randrange(1, 16), 7 + n + 16]))
                    seq.append((lab, "r", d, n, "tw%d.%d" % (d, n), 7 + n))
        lens = [0, 1, 100] if small else [0, 1, 16, 255, 4096, 65519]
        for n in (NONCES if not small else NONCES[:4]) + [rnd.getrandbits(64) % MAXN for _ in range(2)]:
            for d in dirs:
                w, r = ("A", "B") if d == 0 else ("B", "A")
                ln = rnd.choice(lens)
                sd = "x%d.%d" % (d, n)
                lab = c.op("st_write", w, n=n, pay="gen:%d:%s" % (ln, sd), buf=BIG, out="x%d_%d" % (d, n))
                seq.append((lab, "w", d, n, sd, ln))
                lab = c.op("st_read", r, n=n, msg="$x%d_%d" % (d, n), buf=rnd.choice([BIG, ln, ln + rnd.randrange(1, 16), ln + 16]))
                seq.append((lab, "r", d, n, sd, ln))
        # pool of (direction, nonce, length, seed) combinations written sequentially twice (repetition must give the
        # same bytes); the concurrent writers below draw from this pool, so each has a sequential reference value
        pool = []
        for i in range(6 if small else 16):
            d = rnd.choice(dirs)
            n = rnd.choice(NONCES + [rnd.getrandbits(64) % MAXN])
            ln = rnd.choice([0, 1, 33, 300] if not small else [0, 5])
            pool.append((d, n, ln, "c%d" % i))
        for rep in range(2):
            for (d, n, ln, sd) in pool:
                w = "A" if d == 0 else "B"
                lab = c.op("st_write", w, n=n, pay="gen:%d:%s" % (ln, sd), buf=BIG)
                seq.append((lab, "w", d, n, sd, ln))
        # (3) concurrent block on the shared objects
        nthr = threads or rnd.choice([2, 4, 8, 16])
        per = 4 if small else rnd.choice([50, 200, 600])
        thr = []
        plan = []
        for t in range(nthr):
            ops = []
            for i in range(per):
                d = rnd.choice(dirs)
                w, r = ("A", "B") if d == 0 else ("B", "A")
                kind = rnd.choice(["w", "r", "rt", "rt"])
                if kind == "w":
                    pd, n, ln, sd = rnd.choice(pool)
                    ops.append("w,%s,%d,%d,%s" % ("A" if pd == 0 else "B", n, ln, sd))
                elif kind == "r":
                    n = rnd.randrange(T)
                    ops.append("r,%s,%d,tw%d_%d,%d" % (r, n, d, n, 7 + n))
                else:
                    n = rnd.choice(NONCES + [rnd.getrandbits(64) % MAXN, t, i])
                    ln = rnd.choice([0, 1, 33, 300] if not small else [0, 5])
                    ops.append("rt,%s,%s,%d,%d,c%d.%d" % (w, r, n, ln, t, i))
                x = rnd.random()
                if x < 0.15:
                    ops.append("y")
                elif x < 0.25:
                    ops.append("s,%d" % rnd.choice([10, 100, 1000]))
            thr.append(ops)
        lc = c.conc(thr, ticks=True)
        # (4) a third identical session (F, G) whose very FIRST use of its transport keys is concurrent
        # (lazily initialised per-key state would be raced here); expected values are those of A/B (same keys)
        lc2 = []
        for rep in range(1 if small else 4):
            F, G = "F%d" % rep, "G%d" % rep
            sessions.add_pair(c, parsed, keys, res=(be, be), rng=("script:%d" % seed, "script:%d" % (seed + 1)), rec=("-", "-"), ids=(F, G))
            sessions.add_handshake(c, parsed, ["-"] * parsed.nmsgs, ids=(F, G), prefix="h" + F, flags=("q",))
            sessions.add_convert(c, ids=(F, G), stateless=True)
            thr2 = []
            for t in range(min(nthr, 8)):
                ops = []
                for i in range(3 if small else 6):
                    pd, n, ln, sd = rnd.choice(pool)
                    if rnd.random() < 0.5:
                        ops.append("w,%s,%d,%d,%s" % (F if pd == 0 else G, n, ln, sd))
                    else:
                        n2 = rnd.randrange(T)
                        d2 = rnd.choice(dirs)
                        ops.append("r,%s,%d,tw%d_%d,%d" % (G if d2 == 0 else F, n2, d2, n2, 7 + n2))
                thr2.append(ops)
            lc2.append(c.conc(thr2, ticks=True))
        # (5) "byte-identical to the n-th message of a stateful sender of the same session" also after rekeys: the same
        # rekey operations on the stateless pair and on the stateful twin (spec REKEY through rekey_outgoing/incoming - which
        # is the cipher's own rekey() for back end `+rk` -, manual keys singly and both in one call), then message T
        rk = []
        if not small:
            nn = T
            for step in range(3):
                how = rnd.choice(["auto", "manual-both", "manual-i", "manual-r", "auto"])
                k1, k2 = gen_bytes("rk1.%d.%d" % (seed, step), 32).hex(), gen_bytes("rk2.%d.%d" % (seed, step), 32).hex()
                for (a, b) in (("A", "B"), ("A2", "B2")):
                    if how == "auto":
                        for d in dirs:
                            w, r = (a, b) if d == 0 else (b, a)
                            c.op("rekey_out", w)
                            c.op("rekey_in", r)
                    else:
                        for pid in (a, b):
                            c.op("rekey_manual", pid, i=k1 if how != "manual-r" else "-", r=k2 if how != "manual-i" else "-")
                for d in dirs:
                    w, r = ("A", "B") if d == 0 else ("B", "A")
                    pay = "gen:%d:rk%d.%d" % (9 + step, d, step)
                    lt = c.op("t_write", w + "2", pay=pay, buf=BIG, out="rkt%d_%d" % (d, step))
                    c.op("t_read", r + "2", msg="$rkt%d_%d" % (d, step), buf=BIG, flags=("q",))
                    lw = c.op("st_write", w, n=nn, pay=pay, buf=BIG, out="rks%d_%d" % (d, step))
                    lr = c.op("st_read", r, n=nn, msg="$rkt%d_%d" % (d, step), buf=BIG)
                    rk.append((lt, lw, lr, how, "rk%d.%d" % (d, step), 9 + step, nn))
                nn += 1
        c.meta.update({"twin": twin, "seq": seq, "conc": lc, "conc2": lc2, "T": T, "rk": rk})
        c.info = {"key": (ci, be, pat), "cipher": ci, "oneway": parsed.oneway, "nthr": nthr}
        return c

    # ------------------------------------------------------------ judge

    def _keys_from_twin(self, events):
        sets = [kv["key"] for e in events if e.party == "A2" and e.op in ("hs_write", "hs_read") for kind, sub, kv in e.subs if kind == "c" and sub == "set"]
        if len(sets) < 2:
            return None
        return bytes.fromhex(sets[-2]), bytes.fromhex(sets[-1])

    def judge(self, case, events, death):
        r = core.CaseResult()
        if death is not None:
            r.viol("C16|death", "driver died in a stateless / concurrent case (rc %r): %s" % (death.get("rc"), death.get("stderr", "")[-300:])) if death.get("confirmed") else r.inconclusive.append("driver death under load only")
            return r
        ci = case.info["cipher"]
        tag = "%s/%s/%s" % case.info["key"]
        by = {e.label: e for e in events}
        ks = self._keys_from_twin(events)
        if ks is None:
            r.foreign_dev("C02", "twin handshake did not finish")
            return r
        twin_msgs = {}
        for lab, d, n in case.meta["twin"]:
            e = by.get(str(lab))
            if e is None or not e.ok:
                r.foreign_dev("C02", "twin write failed")
                return r
            b, _, _ = decode_out(e.kv.get("out"))
            twin_msgs[(d, n)] = b
        ooo = 0
        ref = {}
        nonconf = False
        for lab, kind, d, n, sd, ln in case.meta["seq"]:
            e = by.get(str(lab))
            if e is None or e.skipped:
                r.foreign_dev("C02", "stateless session not established")
                return r
            if e.panic:
                r.foreign_dev("C10", "panic in %s" % e.op)
                return r
            pay = gen_bytes(sd, ln)
            if kind == "w":
                if not e.ok:
                    r.viol("C16|write-failed", "%s: st_write(nonce %d, %d bytes) failed: %s" % (tag, n, ln, e.res))
                    return r
                b, l2, sh = decode_out(e.kv.get("out"))
                got = dig(b) if b is not None else "%d:%s" % (l2, sh[:8].hex())
                # purity: the same (direction, nonce, payload) always yields the same bytes
                k0 = (d, n, sd, ln)
                if k0 in ref and ref[k0] != got:
                    r.viol("C16|impure-write", "%s: st_write(nonce %d, same payload) returned different bytes on repetition" % (tag, n))
                    return r
                ref.setdefault(k0, got)
                if sd.startswith("tw"):
                    tm = twin_msgs.get((d, n))
                    if tm is None or dig(tm) != got:
                        r.viol("C16|twin", "%s: message written under nonce %d differs from the %d-th message of the stateful twin" % (tag, n, n))
                        return r
                    r.stats["twin_messages_compared"] += 1
                # conformance to the model's AEAD is C01/C18's predicate: recorded, not judged here
                if got != dig(prims.aead_encrypt(ci, ks[d], n, b"", pay)):
                    r.foreign_dev("C01/C18", "stateless message differs from the model's AEAD output")
                    nonconf = True
            else:
                ok = e.ok
                if ok:
                    b, l2, sh = decode_out(e.kv.get("out"))
                    ok = (b == pay) if b is not None else (l2 == len(pay) and hashlib.sha256(pay).digest() == sh)
                if not ok:
                    r.viol("C16|read", "%s: st_read(nonce %d) of the genuine message did not return the payload (%s)" % (tag, n, e.res))
                    return r
            r.stats["stateless_ops_judged"] += 1
            ooo += 1
        for lt, lw, lr, how, sd, ln, nn in case.meta.get("rk", []):
            et, ew, er = by.get(str(lt)), by.get(str(lw)), by.get(str(lr))
            if et is None or not et.ok or ew is None or er is None or ew.panic or er.panic:
                r.foreign_dev("C15/C10", "twin write after rekey failed or a call panicked")
                break
            if not ew.ok or ew.kv.get("out") != et.kv.get("out"):
                r.viol("C16|twin-after-rekey|%s" % how, "%s: after the same rekey operations (%s) the stateless message under nonce %d differs from the stateful twin's message %d (%s)" % (tag, how, nn, nn, ew.res[:40]))
                return r
            ok = er.ok
            if ok:
                b, l2, sh = decode_out(er.kv.get("out"))
                ok = b == gen_bytes(sd, ln)
            if not ok:
                r.viol("C16|read-after-rekey|%s" % how, "%s: after the same rekey operations (%s) the stateless reader does not return the payload of the stateful twin's message %d (%s)" % (tag, how, nn, er.res[:40]))
                return r
            r.stats["twin_messages_compared_after_rekey"] += 1
        # concurrent blocks
        ce = by.get(str(case.meta["conc"]))
        ce2s = [by.get(str(l)) for l in case.meta.get("conc2", [])]
        if ce is None:
            r.inconclusive.append("no conc event in case %s" % case.id)
            return r
        order = []
        nconc = 0
        for kind, sub, kv in list(ce.subs) + [x for ce2 in ce2s if ce2 is not None for x in ce2.subs]:
            if kind != "t":
                continue
            kv = dict(kv)
            kv["thr"] = sub.split("=", 1)[1] if "=" in sub else sub
            op = kv["op"].split(",")
            res = kv.get("res", "")
            if res.startswith("panic"):
                r.foreign_dev("C10", "panic in thread")
                return r
            order.append((int(kv.get("t1", "0")), kv["thr"]))
            if op[0] == "w":
                _, w, n, ln, sd = op
                d = 0 if w[0] in ("A", "F") else 1
                exp = ref.get((d, int(n), sd, int(ln)))
                if exp is None:
                    r.inconclusive.append("case %s: no sequential reference for %s" % (case.id, kv["op"]))
                    return r
                if not res.startswith("ok") or kv.get("outd") != exp:
                    r.viol("C16|conc-write", "%s: concurrent st_write(nonce %s) returned %s / %s, the sequential value of the same call is %s (thread %s of %d)" % (tag, n, res, kv.get("outd"), exp, kv["thr"], case.info["nthr"]))
                    return r
            elif op[0] == "r":
                _, rp, n, reg, bl = op
                d = int(reg[2])
                pay = gen_bytes("tw%d.%s" % (d, n), 7 + int(n))
                if not res.startswith("ok") or kv.get("outd") != dig(pay):
                    r.viol("C16|conc-read", "%s: concurrent st_read(nonce %s) of the genuine message returned %s (thread %s of %d)" % (tag, n, res, kv["thr"], case.info["nthr"]))
                    return r
            else:
                _, w, rp, n, ln, sd = op
                d = 0 if w[0] in ("A", "F") else 1
                pay = gen_bytes(sd, int(ln))
                exp = prims.aead_encrypt(ci, ks[d], int(n), b"", pay)
                if (not nonconf and kv.get("outd") != dig(exp)) or not res.startswith("ok") or not kv.get("rres", "").startswith("ok") or kv.get("routd") != dig(pay):
                    r.viol("C16|conc-roundtrip", "%s: concurrent write/read round trip under nonce %s gave %s / %s (thread %s of %d)" % (tag, n, res, kv.get("rres"), kv["thr"], case.info["nthr"]))
                    return r
            nconc += 1
        r.stats["concurrent_ops_judged"] += nconc
        r.stats["concurrent_blocks"] += 1
        r.stats["first_use_concurrent_blocks"] += sum(1 for x in ce2s if x is not None)
        order.sort()
        sig = hashlib.sha256(",".join(t for _, t in order).encode()).hexdigest()[:16]
        switches = sum(1 for i in range(1, len(order)) if order[i][1] != order[i - 1][1])
        r.stats["thread_switches_observed"] += switches
        r.keys.add(("interleaving", sig))
        r.sets.setdefault("interleaving_signatures", set()).add(sig)
        r.keys.add(case.info["key"] + (case.id,))
        r.nontrivial = nconc > 0 and ooo > 0
        return r

    def san_cases(self, tool):
        rnd = random.Random(self.seed * 7 + (1 if tool == "tsan" else 2))
        cases = []
        if tool == "tsan":
            for i in range(32):
                c = self.build((rnd.choice(CIPHERS), "D", rnd.choice(["NN", "XX", "N"]), rnd.getrandbits(32)), threads=rnd.choice([4, 8]))
                cases.append(c)
        else:
            for i in range(16):
                c = self.build((CIPHERS[i % 3], "D", ["NN", "N"][i % 2], rnd.getrandbits(32)), small=True, threads=3)
                cases.append(c)
        return cases

    # ------------------------------------------------------------ sanitizer runs (thorough)

    def extra_runs(self, binary):
        stats = collections.Counter()
        viols = []
        notes = {}
        if self.tier != "thorough" and not os.environ.get("VERIF_SAN"):
            notes["sanitizers"] = "not run in quick tier (thorough runs ThreadSanitizer and Miri)"
            return stats, viols, notes
        from .. import sanit

        for tool in ("tsan", "miri"):
            try:
                res = sanit.run_tool(self, tool)
            except core.Inconclusive as e:
                notes[tool] = "inconclusive: %s" % str(e)[:500]
                stats[tool + "_inconclusive"] += 1
                continue
            notes[tool] = res["note"]
            stats.update(res["stats"])
            viols.extend(res["violations"])
        return stats, viols, notes
