"""C03 handshake transcript integrity. Fault enumeration over alterations of handshake messages
(bit flips, truncations, extensions, substitutions), one altered delivery per fresh honest prefix.
Classification comes from the model's field layout only (no crypto): a message that contains an
encrypted field must be rejected by the receiving read for ANY alteration; an all-cleartext message
may be accepted, but then the two parties must never both finish without an error."""
import random

from noiseref import prims
from noiseref.patterns import CIPHERS, DHS, HASHES, PATTERN_NAMES, all_variants, make_name, parse_name_simple, valid_psk_sets

from .. import core, faults, sessions
from ..script import Case
from ..shadow import SpecError, eval_bytes, regs_from_events

BIG = sessions.BIGBUF


def mutations(parsed, k, paylen, rnd, full):
    """list of (mutation suffix or substitute spec, kind label, field label)"""
    fields, hk, off, total, any_enc, first_enc, publen = faults.msg_geometry(parsed, k, paylen)

    def field_of(byte):
        for f in fields:
            if f.off <= byte < f.off + f.len:
                if f.enc and byte >= f.off + f.len - 16:
                    return f.kind + "-tag"
                return f.kind + ("-enc" if f.enc else "")
        if hk and byte >= total - 16:
            return "payload-tag"
        return "payload-enc" if hk else "payload"

    out = []
    nbits = total * 8
    if full or nbits <= 1024:
        bits = range(nbits)
    else:
        bits = set()
        for f in fields:
            bits |= set(range(f.off * 8, (f.off + f.len) * 8, 3))
        bits |= set(range(off * 8, nbits, max(1, (nbits - off * 8) // 96)))
        bits |= set(range((total - 16) * 8, nbits))
        bits = sorted(bits)
    for b in bits:
        out.append(("~flip:%d" % b, "flip", field_of(b // 8)))
    for t in range(total):
        out.append(("~trunc:%d" % t, "trunc", "len"))
    for n in (1, 15, 16, 17, rnd.randrange(18, 300)):
        if total + n <= 65535:
            out.append(("~ext:gen:%d:x" % n, "ext", "len"))
    for _ in range(6):
        o = rnd.randrange(total) if total else 0
        ln = min(total - o, rnd.randrange(1, 9))
        if ln > 0:
            out.append(("~xor:%d:%s" % (o, rnd.randbytes(ln).hex().replace("00", "01")), "edit", field_of(o)))
    return out


class CheckC03(core.Check):
    id = "C03"
    level = "fault_enumeration"
    cfg = "A"
    rule = (
        "case = fresh honest prefix, then message k delivered with ONE alteration (every single-bit flip of fixed fields and sampled/all "
        "payload bits, every truncation length, extensions, multi-byte edits, substitution by an earlier message, by the same-index message "
        "of a session with other keys, and of a session with the same keys but other ephemerals; a third of the sessions with superfluous pinned peer keys), then the handshake is continued honestly; "
        "oracle: alteration of a message holding any encrypted field => this read must fail; otherwise never both parties finished without "
        "error; distinct key = (pattern+psk variant, DH, message index, alteration kind, field touched / length); non-trivial = the altered "
        "delivery reached the receiving read in the expected state"
    )
    assumptions = ["which fields of which message are encrypted follows from the independent token table (psk rule: e is mixed into the key)"]
    min_required = {"altered_deliveries": 20000, "rejections_observed": 10000}
    cases_per_shard = 1500
    eval_stat = "altered_deliveries"

    def plan(self):
        rnd = random.Random(self.seed * 86028121 + 3)
        descs = []
        if self.tier == "quick":
            variants = [(p, ()) for p in PATTERN_NAMES]
            for p in rnd.sample(PATTERN_NAMES, 20):
                variants.append((p, rnd.choice([x for x in valid_psk_sets(p) if x])))
            for p, ps in variants:
                name = make_name(p, ps, "25519", "ChaChaPoly", rnd.choice(HASHES))
                parsed = parse_name_simple(name)
                for k in range(parsed.nmsgs):
                    descs.append((name, k, rnd.getrandbits(24), 0))
            # every cipher (and both DH functions) on patterns whose first message is all cleartext
            for ci in CIPHERS:
                for p in ("NN", "XX", "IX"):
                    name = make_name(p, (), rnd.choice(DHS), ci, rnd.choice(HASHES))
                    for k in range(parse_name_simple(name).nmsgs):
                        descs.append((name, k, rnd.getrandbits(24), 0))
            # other primitives on a sample
            for p, ps in rnd.sample(variants, 12):
                name = make_name(p, ps, rnd.choice(DHS), rnd.choice(CIPHERS), rnd.choice(HASHES))
                parsed = parse_name_simple(name)
                for k in range(parsed.nmsgs):
                    descs.append((name, k, rnd.getrandbits(24), 0))
        else:
            for p, ps in all_variants():
                for dh in DHS:
                    name = make_name(p, ps, dh, rnd.choice(CIPHERS), rnd.choice(HASHES))
                    parsed = parse_name_simple(name)
                    for k in range(parsed.nmsgs):
                        descs.append((name, k, rnd.getrandbits(24), 0))
        # expand into chunks of mutations so shards balance: desc = (name, k, seed, chunk)
        out = []
        for name, k, seed, _ in descs:
            n = len(self._muts(name, k, seed)) + 7
            for ch in range(0, n, 40):
                out.append((name, k, seed, ch))
        return out

    def _muts(self, name, k, seed):
        parsed = parse_name_simple(name)
        rnd = random.Random(seed)
        paylen = rnd.choice([0, 1, 7, 24])
        m = mutations(parsed, k, paylen, rnd, full=(self.tier != "quick"))
        return [("p", paylen)] + m

    def _special(self, parsed, k, seed, paylen):
        """alterations that need knowledge of the message's content (the scripted ephemeral is predictable)"""
        from noiseref.patterns import tokens_for
        from ..script import script_rng_bytes

        out = []
        toks = tokens_for(parsed.pattern, parsed.psks)
        if parsed.dh == "P256" and "e" in toks[k]:
            # the writer's ephemeral: its RNG stream is script:<seed> (initiator) / script:<seed+7> (responder), one
            # 32-byte draw per earlier message of the same party that carried an `e`
            earlier = sum(1 for j in range(k) if j % 2 == k % 2 and "e" in toks[j])
            sd = seed if k % 2 == 0 else seed + 7
            priv = script_rng_bytes(str(sd), 0, 32 * earlier, 32)
            pub = prims.dh_pub("P256", priv)
            if pub is not None:
                p = 0xFFFFFFFF00000001000000000000000000000000FFFFFFFFFFFFFFFFFFFFFFFF
                neg = (p - int.from_bytes(pub[33:65], "big")).to_bytes(32, "big")
                # the same x coordinate with the other y: a valid point with the same DH result (x only)
                out.append(("~set:33:%s" % neg.hex(), "negate-e", "e"))
        # extensions delivered into an EMPTY payload buffer
        out.append(("~ext:gen:5:z", "ext-buf0", "len"))
        out.append(("~ext:gen:16:z", "ext-buf0", "len"))
        return out

    def build(self, desc):
        """one driver case per desc holds up to 40 independent sub-sessions (parties suffixed by index)"""
        name, k, seed, ch = desc
        parsed = parse_name_simple(name)
        muts = self._muts(name, k, seed)
        paylen = muts[0][1]
        muts = muts[1:] + [("$SUBprev", "subst-earlier", "msg"), ("$SUBother", "subst-otherkeys", "msg"), ("$SUBeph", "subst-othereph", "msg"), ("", "control", "none")]
        muts += self._special(parsed, k, seed, paylen)
        sel = muts[ch:ch + 40]
        c = Case("ti-%s-%d-%d-%d" % (name, k, seed, ch), desc)
        keys = sessions.Keys(parsed, seed)
        keys2 = sessions.Keys(parsed, seed + 1)
        subs = []
        res = random.Random(seed).choice([("D", "D"), ("R", "D"), ("D", "DR")])
        for j, (mut, kind, field) in enumerate(sel):
            a, b = "A%d" % j, "B%d" % j
            # a third of the cases: both parties are also given keys the pattern does not ask for (the peer's static key
            # pinned although it will be transmitted) - a transmitted field must count even if the receiver "knows" it
            sessions.add_pair(c, parsed, keys, res=res, rng=("script:%d" % seed, "script:%d" % (seed + 7)), rec=("-", "-"), ids=(a, b), supply=("all", "all") if seed % 3 == 0 else ("needed", "needed"))
            pays = ["gen:%d:h%d" % (paylen if i == k else 2, i) for i in range(parsed.nmsgs)]
            for i in range(k):
                w, r = (a, b) if i % 2 == 0 else (b, a)
                c.op("hs_write", w, pay=pays[i], buf=BIG, out="m%d_%d" % (j, i), flags=("q",) if i < k - 1 else ())
                c.op("hs_read", r, msg="$m%d_%d" % (j, i), buf=BIG, flags=("q",))
            w, r = (a, b) if k % 2 == 0 else (b, a)
            lw = c.op("hs_write", w, pay=pays[k], buf=BIG, out="g%d" % j)
            src = "$g%d" % j
            if mut.startswith("$SUB"):
                what = mut[4:]
                if what == "prev":
                    if k == 0:
                        continue
                    msg = "$m%d_%d" % (j, k - 1)
                else:
                    # a parallel session: other static keys/psks, or same keys with other ephemerals
                    kk = keys2 if what == "other" else keys
                    a2, b2 = "C%d" % j, "D%d" % j
                    sessions.add_pair(c, parsed, kk, rng=("script:%d" % (seed + 100), "script:%d" % (seed + 107)), rec=("-", "-"), ids=(a2, b2))
                    for i in range(k + 1):
                        w2, r2 = (a2, b2) if i % 2 == 0 else (b2, a2)
                        c.op("hs_write", w2, pay=pays[i], buf=BIG, out="o%d_%d" % (j, i))
                        if i < k:
                            c.op("hs_read", r2, msg="$o%d_%d" % (j, i), buf=BIG, flags=("q",))
                    msg = "$o%d_%d" % (j, k)
            else:
                msg = src + mut
            lr = c.op("hs_read", r, msg=msg, buf=0 if kind == "ext-buf0" else BIG)
            # carry on honestly: whoever has the turn writes, the other reads
            lp = c.op("pingpong", a=a, b=b, max=6, plen=1, seed="pp")
            subs.append((j, lw, lr, lp, msg, kind, field))
        fields, hk, off, total, any_enc, first_enc, publen = faults.msg_geometry(parsed, k, paylen)
        c.meta["subs"] = subs
        from noiseref.patterns import PATTERNS, tokens_for

        pat = PATTERNS[parsed.pattern]
        m0 = tokens_for(parsed.pattern, parsed.psks)[0]
        # does processing message 0 involve any static key or psk?  if not, ANY party's message 0 is a
        # valid initiation for a fresh responder (inherent to Noise), whatever keys the other session has
        # (an `s` token alone only TRANSMITS the sender's static key - under a key derived from public data in psk
        # mode - so it does not bind the message to the receiver's context; es/ss/se and psk tokens do)
        keyed0 = bool(pat["pre_i"] or pat["pre_r"] or any(t in ("es", "ss", "se", "psk") for t in m0))
        c.info = {"name": name, "k": k, "any_enc": any_enc, "fixed": off, "total": total, "nmsgs": parsed.nmsgs, "keyed0": keyed0}
        return c

    def judge(self, case, events, death):
        r = core.CaseResult()
        inf = case.info
        name = inf["name"]
        f = name.split("_")
        variant, dh = f[1], f[2]
        if death is not None:
            r.foreign_dev("C10", "driver died")
            return r
        by = {}
        for e in events:
            by.setdefault(e.label.split(".")[0], []).append(e)
        regs = regs_from_events(case, events)
        for j, lw, lr, lp, msg, kind, field in case.meta["subs"]:
            ew = by.get(str(lw), [None])[0]
            er = by.get(str(lr), [None])[0]
            if ew is None or er is None or not ew.ok:
                r.foreign_dev("C02", "honest prefix did not reach message %d" % inf["k"])
                continue
            if er.skipped:
                continue
            if er.panic and kind != "control":
                # the receiving read's result is C03's own predicate (reject with an error): a panic is not a rejection
                r.viol("C03|panic|%s|%s" % (kind, field), "%s: read_message panicked on message %d altered in transit (%s, %s): %s" % (name, inf["k"], kind, field, er.res[:120]))
                continue
            if er.panic:
                r.foreign_dev("C10", "hs_read panicked on the genuine message")
                continue
            genuine = regs.get("g%d" % j)
            try:
                delivered = eval_bytes(msg, regs)
            except (SpecError, ValueError):
                delivered = None
            if kind == "control":
                # unaltered delivery: sanity of the harness, not judged here beyond counting
                if er.ok:
                    r.stats["control_deliveries_accepted"] += 1
                continue
            if genuine is None or delivered is None:
                r.inconclusive.append("case %s: delivered bytes could not be reconstructed" % case.id)
                continue
            if delivered == genuine:
                r.stats["identical_after_mutation_dropped"] += 1
                continue
            r.stats["altered_deliveries"] += 1
            r.stats["kind_" + kind] += 1
            pp = by.get(str(lp), [])
            done = [e for e in pp if e.op == "pingpong"]
            fin = done[0].res if done else "?"
            if inf["k"] == 0 and (kind == "subst-othereph" or (kind == "subst-otherkeys" and not inf["keyed0"])):
                # another initiator's message 0 is a VALID first message for this responder (inherent to Noise: first
                # messages can be replayed / sent by anyone). Accepting it is correct; in an interactive pattern the
                # original initiator must then detect the mix-up; in a one-way pattern nothing can (spec-inherent, counted).
                if er.ok and inf["nmsgs"] > 1 and fin == "done:bothfin":
                    r.viol("C03|undetected|%s|valid-initiation" % kind, "%s: message 0 replaced by another session's message 0 and both parties finished without any error" % name)
                elif er.ok and inf["nmsgs"] == 1:
                    r.stats["oneway_valid_initiation_substitutions_unjudged"] += 1
                else:
                    r.stats["valid_initiation_substitutions_detected_later" if er.ok else "valid_initiation_substitutions_rejected"] += 1
                    r.nontrivial = True
                    r.keys.add((variant, dh, 0, kind, "valid-initiation"))
                continue
            key = (variant, dh, inf["k"], kind, field if kind != "trunc" else min(len(delivered), 200))
            if inf["any_enc"] or len(delivered) < inf["fixed"]:
                why = "an encrypted field follows or is touched" if inf["any_enc"] else "shorter than the fixed fields"
                if er.ok:
                    r.viol(
                        "C03|accepted|%s|%s|%s" % (kind, field, "enc" if inf["any_enc"] else "short"),
                        "%s: message %d altered (%s, %s; %d -> %d bytes) was accepted by read_message (returned %s) although %s" % (name, inf["k"], kind, field, len(genuine), len(delivered), er.res, why),
                    )
                    continue
                r.stats["rejections_observed"] += 1
                r.stats["rejected_" + er.errkind()] += 1
            else:
                # all-cleartext message: acceptance is unspecified, detection must follow
                if er.ok:
                    r.stats["cleartext_alterations_accepted"] += 1
                    b = er.kv.get("out", "-")
                    if b != "-" and not b.startswith("big:") and bytes.fromhex(b) != delivered[inf["fixed"]:]:
                        r.foreign_dev("C01", "payload returned for an accepted altered cleartext message is not the delivered payload")
                    if fin == "done:bothfin":
                        r.viol(
                            "C03|undetected|%s|%s" % (kind, field),
                            "%s: message %d altered in transit (%s, %s) and yet both parties finished the handshake without any error" % (name, inf["k"], kind, field),
                        )
                        continue
                    r.stats["detected_later_" + fin.replace("done:", "")] += 1
                else:
                    r.stats["rejections_observed"] += 1
            r.nontrivial = True
            r.keys.add(key)
        return r
