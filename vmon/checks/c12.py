"""C12 builder prerequisites: complete enumeration of (pattern, role, supplied keys, modifiers,
resolver); predicate computed from the independent token table, not from snow's tables."""
import random

from noiseref.patterns import PATTERN_NAMES, PATTERNS, make_name, needs_local_static, needs_remote_static, parse_name_simple, valid_psk_sets

from .. import core, sessions
from ..script import Case, gen_bytes

RES_VARIANTS = ["D", "D-rng", "D-dh", "D-cipher", "D-hash", "Ronly", "R", "DR"]
LACK = {"D-rng": "Init(GetRngImpl)", "D-dh": "Init(GetDhImpl)", "D-cipher": "Init(GetCipherImpl)", "D-hash": "Init(GetHashImpl)", "Ronly": "Init(GetDhImpl)"}
# composed resolvers: the primitive is provided iff at least one member provides it
for _k, _e in (("rng", "Init(GetRngImpl)"), ("dh", "Init(GetDhImpl)"), ("cipher", "Init(GetCipherImpl)"), ("hash", "Init(GetHashImpl)")):
    RES_VARIANTS += ["fb(D-%s|D)" % _k, "fb(D|D-%s)" % _k, "fb(D-%s|D-%s)" % (_k, _k), "fb(D-%s|fb(D-%s|D))" % (_k, _k)]
    LACK["fb(D-%s|D-%s)" % (_k, _k)] = _e
RES_VARIANTS += ["fb(Ronly|D-dh)", "fb(D-dh|Ronly)", "fb(Ronly|D)"]
LACK["fb(Ronly|D-dh)"] = "Init(GetDhImpl)"
LACK["fb(D-dh|Ronly)"] = "Init(GetDhImpl)"


def mod_variants(pattern):
    n = len(PATTERNS[pattern]["msgs"])
    out = [("", ())]
    for k in range(10):
        out.append(("psk%d" % k, (k,)))
    for ps in valid_psk_sets(pattern):
        if len(ps) >= 2:
            out.append(("+".join("psk%d" % k for k in ps), ps))
    out.append(("psk%d+psk%d" % (n, n + 1), (n, n + 1)))
    for k in (10, 11, 99, 255):
        out.append(("psk%d" % k, (k,)))
        out.append(("psk0+psk%d" % k, (0, k)))
    out.append(("fallback", "fb"))
    out.append(("fallback+psk0", "fb"))
    out.append(("psk0+fallback", "fb"))
    return out


class CheckC12(core.Check):
    id = "C12"
    level = "exploration"
    cfg = "A"
    exhaustive = True
    rule = (
        "complete enumeration: 38 patterns x 2 roles x 4 subsets of {local static, remote static} x modifier variants (none, psk0..psk9 "
        "singly, every valid psk subset, out-of-range pairs, fallback forms) x resolvers (full, lacking rng/dh/cipher/hash, ring alone, "
        "fallback combinations, DH 448); each build judged against a predicate derived from the token table; then an honest handshake "
        "for every successfully built pair and a PSK-omission run at every psk position; distinct key = (pattern, role, key subset, "
        "modifier string, resolver, outcome); non-trivial = a build was judged"
    )
    assumptions = ["which role's static occurs in which (pre-)message is read off the independent pattern table"]
    min_required = {"builds_judged": 5000, "build_errors_demanded": 2000, "psk_omissions_judged": 100}
    cases_per_shard = 8
    eval_stat = "builds_judged"

    def plan(self):
        descs = []
        for p in PATTERN_NAMES:
            for role in "ir":
                descs.append(("b", p, role))
            descs.append(("pair", p))
            descs.append(("omit", p))
        return descs

    def build(self, desc):
        return getattr(self, "_b_" + desc[0])(desc)

    def _b_b(self, desc):
        _, pat, role = desc
        c = Case("build-%s-%s" % (pat, role), desc)
        exp = {}
        n = 0
        sk = gen_bytes("s" + pat, 32)
        rk = gen_bytes("r" + pat, 32)  # any 32 bytes serve as a 25519 public key
        ini = role == "i"
        for modstr, ps in mod_variants(pat):
            for have_s in (False, True):
                for have_rs in (False, True):
                    resl = RES_VARIANTS if modstr in ("", "psk0") else ["D"]
                    dhs = ["25519", "448"] if modstr == "" else ["25519"]
                    for res in resl:
                        for dh in dhs:
                            name = "Noise_%s%s_%s_ChaChaPoly_SHA256" % (pat, modstr, dh)
                            pid = "P%d" % n
                            n += 1
                            psks = {}
                            if ps != "fb":
                                psks = {k: gen_bytes("k", 32) for k in ps if k < 10 and (k + n) % 3 != 0}
                            c.party(pid, role, name, res=res, rng="script:1", rec="-", s=sk if have_s else None, rs=rk if have_rs else None, psks=psks)
                            lab = c.op("build", pid)
                            kinds = set()
                            if needs_local_static(pat, ini) and not have_s:
                                kinds.add("Prereq(LocalPrivateKey)")
                            if needs_remote_static(pat, ini) and not have_rs:
                                kinds.add("Prereq(RemotePublicKey)")
                            if res in LACK:
                                kinds.add(LACK[res])
                            if dh == "448":
                                kinds.add("Init(GetDhImpl)")
                            if ps == "fb":
                                kinds.add("Pattern(UnsupportedModifier)")
                            elif any(k > len(PATTERNS[pat]["msgs"]) for k in ps):
                                kinds.add("Pattern(InvalidPsk)")
                            exp[lab] = (kinds, (pat, role, have_s, have_rs, modstr, res, dh))
        # a setter called twice is refused (documented: Init(ParameterOverwrite)), whatever else is configured
        for dup in ("s", "r", "p", "k"):
            name = "Noise_%spsk0_25519_ChaChaPoly_SHA256" % pat
            pid = "P%d" % n
            n += 1
            c.party(pid, role, name, res="D", rng="script:1", rec="-", s=sk, rs=rk, prologue=b"pl", psks={0: gen_bytes("k", 32)}, dup=dup)
            lab = c.op("build", pid)
            exp[lab] = ({"Init(ParameterOverwrite)"}, (pat, role, True, True, "psk0/dup-" + dup, "D", "25519"))
        c.meta["exp"] = exp
        c.info = {"kind": "b"}
        return c

    def _b_pair(self, desc):
        """every successfully buildable pair (needed keys / all keys) x psk subsets runs an honest handshake"""
        _, pat = desc
        c = Case("pair-%s" % pat, desc)
        n = 0
        pairs = []
        for ps in valid_psk_sets(pat):
            for supply in ("needed", "all"):
                name = make_name(pat, ps, "25519" if (n % 2 == 0) else "P256", "ChaChaPoly", "BLAKE2s")
                parsed = parse_name_simple(name)
                keys = sessions.Keys(parsed, n)
                ids = ("A%d" % n, "B%d" % n)
                n += 1
                b = sessions.add_pair(c, parsed, keys, rng=("script:1", "script:2"), rec=("-", "-"), supply=(supply, supply), ids=ids)
                lab = c.op("pingpong", a=ids[0], b=ids[1], max=6, plen=4, seed="pp")
                pairs.append((b[0], b[1], lab, name, supply))
        c.meta["pairs"] = pairs
        c.info = {"kind": "pair"}
        return c

    def _b_omit(self, desc):
        _, pat = desc
        c = Case("omit-%s" % pat, desc)
        n = 0
        runs = []
        nm = len(PATTERNS[pat]["msgs"])
        for ps in valid_psk_sets(pat):
            if not ps:
                continue
            for omit in ps:
                for who in "ir":
                    name = make_name(pat, ps, "25519", "AESGCM", "SHA512")
                    parsed = parse_name_simple(name)
                    keys = sessions.Keys(parsed, n)
                    ids = ("A%d" % n, "B%d" % n)
                    n += 1
                    for pid, ini in ((ids[0], True), (ids[1], False)):
                        kw = sessions.party_kwargs(parsed, keys, ini)
                        if (who == "i") == ini:
                            kw["psks"] = {k: v for k, v in kw["psks"].items() if k != omit}
                        c.party(pid, "i" if ini else "r", name, rng="script:%d" % n, rec="-", **kw)
                    lb = (c.op("build", ids[0]), c.op("build", ids[1]))
                    if n % 2 == 0:
                        # a rejected set_psk (wrong key length / slot out of range) supplies nothing: the PSK is still missing
                        bad = ids[0] if who == "i" else ids[1]
                        c.op("set_psk", bad, loc=omit, key="gen:%d:bad" % [31, 33, 0, 64][n % 4])
                        c.op("set_psk", bad, loc=10 + omit, key="gen:32:bad")
                    k_need = 0 if omit == 0 else omit - 1
                    ops = []
                    for k in range(nm):
                        w, r = (ids[0], ids[1]) if k % 2 == 0 else (ids[1], ids[0])
                        lw = c.op("hs_write", w, pay="gen:3:o", buf=sessions.BIGBUF, out="m%d_%d" % (n, k))
                        writer_is_i = k % 2 == 0
                        if k == k_need and (who == "i") == writer_is_i:
                            ops.append((lw, "missing"))
                            break
                        ops.append((lw, "ok"))
                        lr = c.op("hs_read", r, msg="$m%d_%d" % (n, k), buf=sessions.BIGBUF)
                        if k == k_need:
                            ops.append((lr, "missing"))
                            break
                        ops.append((lr, "ok"))
                    runs.append((lb, ops, name, omit, who))
        c.meta["runs"] = runs
        c.info = {"kind": "omit"}
        return c

    # ------------------------------------------------------------ judge

    def judge(self, case, events, death):
        r = core.CaseResult()
        if death is not None:
            r.foreign_dev("C10", "driver died")
            return r
        by = {}
        for e in events:
            by.setdefault(e.label.split(".")[0], []).append(e)
        kind = case.info["kind"]
        if kind == "b":
            for lab, (kinds, key) in case.meta["exp"].items():
                e = by.get(str(lab), [None])[0]
                if e is None or e.skipped:
                    continue
                pat, role, hs, hrs, modstr, res, dh = key
                if e.panic:
                    # the build result is this property's own predicate: a panic is neither Ok nor the descriptive error
                    r.viol("C12|panic|%s|%s" % ("+".join(sorted(kinds)) or "ok-expected", role), "build panicked (%s) for %s role=%s local=%s remote=%s mods=%r resolver=%s; expected %s" % (e.res[:120], pat, role, hs, hrs, modstr, res, sorted(kinds) or "Ok"))
                    continue
                r.stats["builds_judged"] += 1
                what = "%s role=%s local=%s remote=%s mods=%r resolver=%s dh=%s" % (pat, role, hs, hrs, modstr, res, dh)
                if not e.ok and e.errkind().startswith("Pattern(") and not any(k.startswith("Pattern(") for k in kinds):
                    # the *name* was refused by the parser although the grammar allows it: C13's predicate; the builder was never asked
                    r.foreign_dev("C13", "valid name refused by the parser: %s" % e.res)
                    continue
                if not kinds:
                    if not e.ok:
                        r.viol("C12|refused|%s|%s" % (e.res, role), "build refused a sufficient configuration (%s): %s" % (what, e.res))
                        continue
                    r.stats["builds_ok"] += 1
                else:
                    r.stats["build_errors_demanded"] += 1
                    if e.ok:
                        r.viol("C12|accepted|%s|%s" % ("+".join(sorted(kinds)), role), "build accepted an insufficient configuration (%s); expected %s" % (what, sorted(kinds)))
                        continue
                    if e.errkind() not in kinds:
                        r.viol("C12|errkind|%s|%s" % (e.errkind(), "+".join(sorted(kinds))), "build failed with %s for (%s); the violated conditions call for %s" % (e.errkind(), what, sorted(kinds)))
                        continue
                    r.stats["err_" + e.errkind()] += 1
                r.keys.add(key + (e.res,))
                r.nontrivial = True
        elif kind == "pair":
            for b0, b1, lab, name, supply in case.meta["pairs"]:
                e0, e1 = by.get(str(b0), [None])[0], by.get(str(b1), [None])[0]
                if not (e0 and e1 and e0.ok and e1.ok):
                    r.viol("C12|refused|pair|%s" % supply, "honest pair for %s (%s keys) did not build: %s / %s" % (name, supply, e0 and e0.res, e1 and e1.res))
                    continue
                r.stats["builds_judged"] += 2
                steps = by.get(str(lab), [])
                bad = [e for e in steps if e.err and "MissingKeyMaterial" in e.res]
                if bad:
                    r.viol("C12|missing-key-material-later|%s" % bad[0].op, "%s: successfully built pair later failed with %s at %s" % (name, bad[0].res, bad[0].op))
                    continue
                done = [e for e in steps if e.op == "pingpong"]
                if not done or done[0].res != "done:bothfin":
                    r.foreign_dev("C02", "honest handshake of a built pair did not finish: %s" % (done[0].res if done else "?"))
                    continue
                r.stats["pairs_completed"] += 1
                r.keys.add(("pair", name, supply))
                r.nontrivial = True
        else:
            for lb, ops, name, omit, who in case.meta["runs"]:
                e0, e1 = by.get(str(lb[0]), [None])[0], by.get(str(lb[1]), [None])[0]
                if not (e0 and e1 and e0.ok and e1.ok):
                    r.viol("C12|refused|omit", "%s with psk%d not supplied by %s did not build: %s / %s" % (name, omit, who, e0 and e0.res, e1 and e1.res))
                    continue
                okrun = True
                for lab, expect in ops:
                    e = by.get(str(lab), [None])[0]
                    if e is None:
                        okrun = False
                        break
                    if expect == "ok":
                        if not e.ok:
                            if e.err and "MissingPsk" in e.res:
                                r.viol("C12|missing-psk-early|%s" % e.op, "%s: MissingPsk reported at %s %s before the message that needs psk%d" % (name, e.op, e.label, omit))
                            else:
                                r.foreign_dev("C02", "honest step failed: %s" % e.res)
                            okrun = False
                            break
                    else:
                        if e.ok:
                            r.viol("C12|missing-psk-ignored|%s" % e.op, "%s: %s succeeded although psk%d was never supplied by this party" % (name, e.op, omit))
                            okrun = False
                        elif e.panic:
                            r.foreign_dev("C10", "panic")
                            okrun = False
                        elif e.errkind() != "State(MissingPsk)":
                            # the property demands "reported as an error at the message that needs it"; the kind is recorded only
                            r.stats["psk_omission_reported_as_" + e.errkind()] += 1
                if okrun:
                    r.stats["psk_omissions_judged"] += 1
                    r.keys.add(("omit", name, omit, who))
                    r.nontrivial = True
        return r
