"""One module per property: cNN.py defines class CheckCNN(core.Check)."""
import importlib


def load(pid):
    mod = importlib.import_module("vmon.checks." + pid.lower())
    return getattr(mod, "Check" + pid.upper())
