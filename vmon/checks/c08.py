"""C08 a channel exists only if both sides agree on name, prologue, PSKs, static keys.
History checker, needs no crypto: with one context item made different, the two parties must never
both finish without an error; if they nevertheless do, no transport message may be accepted."""
import random

from noiseref import prims
from noiseref.patterns import CIPHERS, DHS, HASHES, PATTERNS, all_variants, make_name, needs_local_static, needs_remote_static, parse_name_simple

from .. import core, sessions
from ..script import Case, gen_bytes

BIG = sessions.BIGBUF


def p256_negate(pub):
    """(x, y) -> (x, p - y): a different valid public key with the same ECDH x-coordinate results"""
    p = 0xFFFFFFFF00000001000000000000000000000000FFFFFFFFFFFFFFFFFFFFFFFF
    return pub[:33] + (p - int.from_bytes(pub[33:65], "big")).to_bytes(32, "big")


def flipbit(b, bit):
    v = bytearray(b)
    v[bit // 8] ^= 1 << (bit % 8)
    return bytes(v)


class CheckC08(core.Check):
    id = "C08"
    level = "exploration"
    cfg = "A"
    rule = (
        "case = batch of sessions of one protocol name in which exactly one context item differs between the peers (name component of "
        "equal length, psk modifier order, one prologue bit / length / presence incl. prologues that differ only beyond byte 65535, one bit of one PSK, a different valid pre-shared static "
        "key on either side incl. the 25519 key differing only in bit 255) or a random pair of such items; whoever has the turn writes, "
        "the other reads, until an error or both finished; oracle: never both finished without an error, and no transport message accepted; "
        "distinct key = (pattern+psk variant, DH, differing item(s)); non-trivial = both parties were built and exchanged at least one message"
    )
    assumptions = ["no crypto model needed: agreement on the context is the only thing varied; keys on both sides are otherwise consistent"]
    min_required = {"mismatched_sessions": 2000}
    cases_per_shard = 60
    eval_stat = "mismatched_sessions"

    def plan(self):
        rnd = random.Random(self.seed * 179424673 + 8)
        descs = []
        for p, ps in all_variants():
            reps = 2 if self.tier == "quick" else 40
            for _ in range(reps):
                descs.append((make_name(p, ps, rnd.choice(DHS), rnd.choice(CIPHERS), rnd.choice(HASHES)), rnd.getrandbits(24)))
        return descs

    def _items(self, parsed, keys, rnd):
        """list of (label, override dict for A, override dict for B). Overrides: name, prologue, psks, s, rs"""
        items = []
        name = parsed.name
        f = name.split("_")
        swaps = {"SHA256": "SHA512", "SHA512": "SHA256", "BLAKE2s": "BLAKE2b", "BLAKE2b": "BLAKE2s"}
        n2 = "_".join(f[:4] + [swaps[f[4]]])
        items.append(("name-hash", {}, {"name": n2}))
        c2 = {"ChaChaPoly": "AESGCM", "AESGCM": "ChaChaPoly", "XChaChaPoly": "ChaChaPoly"}[f[3]]
        items.append(("name-cipher", {"name": "_".join(f[:3] + [c2, f[4]])}, {}))
        if len(parsed.psks) >= 2:
            ps = list(parsed.psks)
            ps[0], ps[1] = ps[1], ps[0]
            items.append(("name-psk-order", {}, {"name": make_name(parsed.pattern, ps, parsed.dh, parsed.cipher, parsed.hash)}))
        pl = gen_bytes("pl", rnd.choice([1, 9, 64, 200]))
        items.append(("prologue-bit", {"prologue": pl}, {"prologue": flipbit(pl, rnd.randrange(len(pl) * 8))}))
        items.append(("prologue-longer", {"prologue": pl}, {"prologue": pl + b"\x00"}))
        items.append(("prologue-shorter", {"prologue": pl[:-1]}, {"prologue": pl}))
        items.append(("prologue-absent", {"prologue": pl}, {}))
        items.append(("prologue-empty-vs-byte", {"prologue": b""}, {"prologue": b"\x00"}))
        # prologues longer than a Noise message: every byte counts, also beyond 65535
        lp = rnd.choice([65535, 65536, 70001])
        items.append(("prologue-long-vs-longer", {"prologue": "gen:%d:lp" % lp}, {"prologue": "gen:%d:lp~ext:00" % lp}))
        items.append(("prologue-long-last-bit", {"prologue": "gen:%d:lp" % (lp + 1)}, {"prologue": "gen:%d:lp~xor:%d:01" % (lp + 1, lp)}))
        for n in parsed.psks:
            bad = dict(keys.psks)
            bad[n] = flipbit(bad[n], rnd.randrange(256))
            items.append(("psk%d-bit" % n, {}, {"psks": bad}) if rnd.random() < 0.5 else ("psk%d-bit" % n, {"psks": bad}, {}))
            # the differing PSK arrives through set_psk() after the party was built with the agreed one
            side = rnd.choice([0, 1])
            items.append(("psk%d-setpsk" % n, {"setpsk": (n, bad[n])} if side == 0 else {}, {"setpsk": (n, bad[n])} if side else {}))
        publen = prims.DH_PUBLEN[parsed.dh]
        other = sessions.Keys(parsed, 99)
        if needs_remote_static(parsed.pattern, True):
            items.append(("rs-of-initiator-other-key", {"rs": other.pub_r}, {}))
            if parsed.dh == "25519":
                items.append(("rs-of-initiator-bit255", {"rs": flipbit(keys.pub_r, 255)}, {}))
            else:
                items.append(("rs-of-initiator-negated", {"rs": p256_negate(keys.pub_r)}, {}))
        if needs_remote_static(parsed.pattern, False):
            items.append(("rs-of-responder-other-key", {}, {"rs": other.pub_i}))
            if parsed.dh == "25519":
                items.append(("rs-of-responder-bit255", {}, {"rs": flipbit(keys.pub_i, 255)}))
            else:
                items.append(("rs-of-responder-negated", {}, {"rs": p256_negate(keys.pub_i)}))
        if needs_remote_static(parsed.pattern, True):
            # the responder uses another static key than the one the initiator was given
            items.append(("s-of-responder-other-key", {}, {"s": other.s_r}))
        if needs_remote_static(parsed.pattern, False):
            items.append(("s-of-initiator-other-key", {"s": other.s_i}, {}))
        return items

    def build(self, desc):
        name, seed = desc
        parsed = parse_name_simple(name)
        rnd = random.Random(seed)
        keys = sessions.Keys(parsed, seed)
        items = self._items(parsed, keys, rnd)
        # random pairs
        def family(label):
            if label.startswith("name"):
                return "name"
            if label.startswith("prologue"):
                return "prologue"
            if label.startswith("psk"):
                return label.split("-")[0]
            return "static-r" if label in ("rs-of-initiator-other-key", "rs-of-initiator-bit255", "rs-of-initiator-negated", "s-of-responder-other-key") else "static-i"

        singles = list(items)
        for _ in range(3):
            a, b = rnd.sample(singles, 2)
            if family(a[0]) == family(b[0]):
                continue  # two changes to the same item could cancel out: the contexts might agree again
            oa, ob = dict(a[1]), dict(a[2])
            oa.update(b[1])
            ob.update(b[2])
            items.append((a[0] + "+" + b[0], oa, ob))
        c = Case("ctx-%s-%d" % (name, seed), desc)
        subs = []
        for j, (label, oa, ob) in enumerate(items):
            ids = ("A%d" % j, "B%d" % j)
            res = rnd.choice(["D", "D", "R", "DR"])  # both peers on the same back end (mixed back ends are C20's matter)
            for pid, ini, ov in ((ids[0], True, oa), (ids[1], False, ob)):
                kw = sessions.party_kwargs(parsed, keys, ini)
                for k in ("psks", "s", "rs"):
                    if k in ov:
                        kw[k] = ov[k]
                c.party(pid, "i" if ini else "r", ov.get("name", name), res=res, rng="script:%d%s" % (seed, pid[0]), prologue=ov.get("prologue"), rec="-", **kw)
            b0, b1 = c.op("build", ids[0]), c.op("build", ids[1])
            for pid, ov in ((ids[0], oa), (ids[1], ob)):
                if "setpsk" in ov:
                    c.op("set_psk", pid, loc=ov["setpsk"][0], key=ov["setpsk"][1])
            # empty payloads matter: then a bare 16-byte tag is all that authenticates the transcript
            lp = c.op("pingpong", a=ids[0], b=ids[1], max=8, plen=rnd.choice([0, 0, 3, 40]), seed="cx")
            tr = []
            c.op("to_transport", ids[0])
            c.op("to_transport", ids[1])
            c.op("t_write", ids[0], pay=rnd.choice(["gen:9:a", "-"]), buf=BIG, out="ta%d" % j)
            tr.append(c.op("t_read", ids[1], msg="$ta%d" % j, buf=BIG))
            if not parsed.oneway:
                c.op("t_write", ids[1], pay=rnd.choice(["gen:9:b", "-"]), buf=BIG, out="tb%d" % j)
                tr.append(c.op("t_read", ids[0], msg="$tb%d" % j, buf=BIG))
            subs.append((label, b0, b1, lp, tr))
        c.meta["subs"] = subs
        c.info = {"name": name}
        return c

    def judge(self, case, events, death):
        r = core.CaseResult()
        name = case.info["name"]
        f = name.split("_")
        if death is not None:
            r.foreign_dev("C10", "driver died")
            return r
        by = {}
        for e in events:
            by.setdefault(e.label.split(".")[0], []).append(e)
        for label, b0, b1, lp, tr in case.meta["subs"]:
            e0, e1 = by.get(str(b0), [None])[0], by.get(str(b1), [None])[0]
            if e0 is None or e1 is None:
                continue
            if e0.panic or e1.panic:
                r.foreign_dev("C10", "build panicked")
                continue
            if not (e0.ok and e1.ok):
                # e.g. an invalid P-256 point would be refused at build: then there is no channel either
                r.stats["refused_at_build"] += 1
                continue
            steps = by.get(str(lp), [])
            if any(e.panic for e in steps):
                r.foreign_dev("C10", "panic during mismatched handshake")
                continue
            done = [e for e in steps if e.op == "pingpong"]
            fin = done[0].res if done else "?"
            r.stats["mismatched_sessions"] += 1
            r.stats["ended_" + fin.replace("done:", "")] += 1
            cls = "+".join(sorted(set(x.rstrip("0123456789") if x.startswith("psk") else x for x in label.split("+"))))
            if fin == "done:bothfin":
                acc = [by[str(l)][0] for l in tr if str(l) in by and by[str(l)][0].ok]
                r.viol(
                    "C08|both-finished|%s" % cls,
                    "%s: peers differing in %s both finished the handshake without any error%s" % (name, label, "; and a transport message was accepted" if acc else ""),
                )
                continue
            for l in tr:
                e = by.get(str(l), [None])[0]
                if e is not None and e.ok:
                    r.viol("C08|transport-accepted|%s" % cls, "%s: peers differing in %s - a transport message was accepted" % (name, label))
            if len(steps) > 1:
                r.nontrivial = True
                r.keys.add((f[1], f[2], label))
        return r
