"""C17 remote static key: `get_remote_static()` in the snapshot after every op, on all three state
types, against the peer's true public key (computed by the model's own DH) and the token table."""
import random

from noiseref import prims
from noiseref.patterns import CIPHERS, DHS, HASHES, all_variants, make_name, needs_remote_static, parse_name_simple, receives_static_at

from .. import core, sessions
from ..script import Case


class CheckC17(core.Check):
    id = "C17"
    level = "exploration"
    cfg = "A"
    rule = (
        "case = honest session with needed / unneeded / absent / stale pre-shared statics (a quarter of the X25519 peers encode their public keys with bit 255 set), converted to stateful or stateless "
        "transport; after EVERY op the reported remote static is compared with the expectation from the token table and "
        "the model-computed public key; distinct key = (pattern+psk variant, DH, supplied-key variant, transport mode); "
        "non-trivial = at least one snapshot with a key present was compared in handshake AND transport state"
    )
    assumptions = ["public keys recomputed by the model's X25519 / P-256 (validated against RFC 7748 / RFC 5903)"]
    min_required = {"snapshots_with_key": 200, "transport_snapshots_with_key": 100}
    cases_per_shard = 200

    def plan(self):
        rnd = random.Random(self.seed * 31337 + 17)
        descs = []
        reps = 4 if self.tier == "quick" else 60
        for p, ps in all_variants():
            for dh in DHS:
                for _ in range(reps):
                    name = make_name(p, ps, dh, rnd.choice(CIPHERS), rnd.choice(HASHES))
                    descs.append((name, rnd.getrandbits(32)))
        self.exhaustive = True  # the quantifier (patterns x psk variants x DH x roles) is enumerated; inputs sampled
        return descs

    def build(self, desc):
        name, seed = desc
        parsed = parse_name_simple(name)
        rnd = random.Random(seed)
        keys = sessions.Keys(parsed, seed)
        c = Case("rs-%s-%d" % (name, seed), desc)
        supply = (rnd.choice(["needed", "needed", "all"]), rnd.choice(["needed", "needed", "all"]))
        # a party may also be given a WRONG remote key that the pattern does not need (a stale pin): it is reported until the
        # message carrying the peer's real key has been read, then the real key must be reported
        other = sessions.Keys(parsed, seed + 99)
        wrongpin = {}
        for pid, ini in (("A", True), ("B", False)):
            if not needs_remote_static(parsed.pattern, ini) and receives_static_at(parsed.pattern, ini) is not None and rnd.random() < 0.25:
                wrongpin[pid] = other.pub_r if ini else other.pub_i
        # an honest peer may encode its X25519 public keys with bit 255 set (resolver `+hb`; receivers mask that bit for the DH,
        # but the key is hashed, transmitted and must be reported exactly as the peer presents it)
        hb = set()
        if parsed.dh == "25519" and rnd.random() < 0.25:
            hb = rnd.choice([{"A"}, {"B"}, {"A", "B"}])

        def enc(owner, k):
            return k[:31] + bytes([k[31] | 0x80]) if (owner in hb and k is not None) else k

        kws = {}
        for pid, ini, j in (("A", True, 0), ("B", False, 1)):
            kw = sessions.party_kwargs(parsed, keys, ini, supply[j])
            if "rs" in kw:
                kw["rs"] = enc("B" if ini else "A", kw["rs"])
            if pid in wrongpin:
                kw["rs"] = wrongpin[pid]
            kws[pid] = kw
            c.party(pid, "i" if ini else "r", name, res="D+hb" if pid in hb else "D", rng="script:%d" % (seed + j), rec="-", **kw)
        c.op("build", "A")
        c.op("build", "B")
        c.op("obs", "A")
        c.op("obs", "B")
        faults = []
        for i in range(parsed.nmsgs):
            w, r = ("A", "B") if i % 2 == 0 else ("B", "A")
            c.op("hs_write", w, pay="gen:%d:x%d" % (rnd.randrange(0, 40), i), buf=sessions.BIGBUF, out="m%d" % i)
            if rnd.random() < 0.3:
                # a tampered copy first: the read must fail and the reported key must not move
                kind = rnd.choice(["last", "first", "trunc"])
                mut = {"last": "~xor:0:00", "first": "~flip:0", "trunc": "~trunc:1"}[kind]
                if kind == "last":
                    faults.append(c.op("hs_read", r, msg="$m%d~ext:00" % i, buf=sessions.BIGBUF))
                else:
                    faults.append(c.op("hs_read", r, msg="$m%d%s" % (i, mut), buf=sessions.BIGBUF))
            c.op("hs_read", r, msg="$m%d" % i, buf=sessions.BIGBUF)
            if rnd.random() < 0.3:
                # calls refused by the early checks (oversize, out of turn) right after a successful read
                faults.append(c.op("hs_read", r, msg="zero:65536", buf=sessions.BIGBUF))
                faults.append(c.op("hs_read", r, msg="$m%d" % i, buf=sessions.BIGBUF))
        c.meta["faults"] = faults
        stateless = rnd.random() < 0.5
        sessions.add_convert(c, stateless=stateless)
        plan = [(0 if parsed.oneway else rnd.randrange(2), "gen:%d:y%d" % (rnd.randrange(0, 40), k)) for k in range(3)]
        sessions.add_transport(c, parsed, plan, stateless=stateless)
        if not stateless:
            c.op("rekey_out", "A")
            c.op("rekey_in", "B")
        c.op("obs", "A")
        c.op("obs", "B")
        kw_i, kw_r = kws["A"], kws["B"]
        c.info = {
            "name": name,
            "pat": parsed.pattern,
            "supplied": {"A": kw_i.get("rs"), "B": kw_r.get("rs")},
            "peerpub": {"A": enc("B", keys.pub_r), "B": enc("A", keys.pub_i)},
            "recv_at": {"A": receives_static_at(parsed.pattern, True), "B": receives_static_at(parsed.pattern, False)},
            "key": (name.split("_")[1], parsed.dh, supply, stateless, tuple(sorted(wrongpin)), tuple(sorted(hb))),
        }
        return c

    def judge(self, case, events, death):
        r = core.CaseResult()
        inf = case.info
        name = inf["name"]
        variant = name.split("_")[1]
        dh = name.split("_")[2]
        cur = {p: inf["supplied"][p] for p in ("A", "B")}
        nread = {"A": 0, "B": 0}
        saw_hs = saw_tr = False
        for e in events:
            p = e.party
            if p not in cur:
                continue
            if not (e.ok or e.err):
                if e.panic:
                    r.foreign_dev("C10", "panic at %s" % e.op)
                break
            if e.op == "hs_read" and e.label.isdigit() and int(e.label) in case.meta.get("faults", ()):
                if e.ok:
                    # the tampered copy was accepted (possible for an all-cleartext message): the session is no longer honest
                    r.stats["tampered_copy_accepted_unjudged"] += 1
                    break
                r.stats["failed_reads_observed"] += 1
            elif e.op == "hs_read":
                if not e.ok:
                    r.foreign_dev("C02", "honest read failed")
                    break
                if inf["recv_at"][p] is not None:
                    # the k-th message this party reads is message index 2k+1 (initiator) / 2k (responder)
                    idx = 2 * nread[p] + (1 if p == "A" else 0)
                    if idx == inf["recv_at"][p]:
                        cur[p] = inf["peerpub"][p]
                nread[p] += 1
            elif not e.ok and e.op in ("hs_write", "to_transport", "to_stateless", "build"):
                r.foreign_dev("C02", "honest %s failed" % e.op)
                break
            o = e.obs()
            st = o.get("st")
            if st not in ("hs", "tr", "sl"):
                continue
            exp = cur[p].hex() if cur[p] is not None else "none"
            got = o.get("rs")
            r.stats["snapshots_compared"] += 1
            if cur[p] is not None:
                r.stats["snapshots_with_key"] += 1
                if st == "hs":
                    saw_hs = True
                else:
                    saw_tr = True
                    r.stats["transport_snapshots_with_key"] += 1
            if got != exp:
                kind = "absent" if got == "none" else ("unexpected" if exp == "none" else ("truncated" if exp.startswith(got) else "wrong"))
                r.viol(
                    "C17|%s|%s|%s" % (kind, st, dh),
                    "%s: get_remote_static() on %s state after %s %s = %s, peer's public key is %s" % (name, st, e.op, e.label, got[:140], exp[:140]),
                )
                return r
        if saw_hs and saw_tr:
            r.nontrivial = True
            r.keys.add(inf["key"])
        elif inf["supplied"]["A"] is None and inf["supplied"]["B"] is None and all(v is None for v in inf["recv_at"].values()):
            # patterns that never convey a static key: the "absent" half of the property
            r.stats["sessions_without_any_static"] += 1
            r.keys.add(inf["key"])
        return r
