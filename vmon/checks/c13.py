"""C13 protocol-name parser: accept exactly the grammar, fields name the components, name verbatim,
every rejection is Error::Pattern(_). Oracle: independent recogniser (noiseref.grammar)."""
import itertools
import random

from noiseref.grammar import recognise
from noiseref.patterns import PATTERN_NAMES

from .. import core
from ..script import Case, hx

DHS = ["25519", "448", "P256"]
CIPHERS = ["ChaChaPoly", "AESGCM", "XChaChaPoly"]
HASHES = ["SHA256", "SHA512", "BLAKE2s", "BLAKE2b"]
ALPHABET = "_+NKXI1psk0259fallbackNoiseChaPolyAESGCMXSHA256BLAKE2sb 448é\u0000ｘ"
CHUNK = 500


def modifier_lists():
    out = [""]
    psk = ["psk%d" % i for i in range(5)]
    for n in range(1, 6):
        for comb in itertools.combinations(psk, n):
            out.append("+".join(comb))
    for m in list(out):
        out.append(("fallback+" + m) if m else "fallback")
        if m:
            out.append(m + "+fallback")
    return out


class CheckC13(core.Check):
    id = "C13"
    level = "exploration"
    cfg = "A"
    rule = (
        "case = a batch of name strings parsed by the real parser, each judged by an independent recogniser written from spec "
        "section 8: (a) the full product of valid components, (b) every single-character insertion / deletion / replacement / "
        "duplication at every position of sampled valid names, (c) longest-prefix traps, psk numeral forms, duplicates of any position 0..255 at any distance, (d) random strings, strings of 256..5000 bytes; "
        "distinct key = the string itself; non-trivial = the string was judged valid or invalid (not 'unspecified')"
    )
    assumptions = ["psk numerals that are non-canonical (psk01) or above 9 are 'unspecified' (recorded, fields still checked when accepted)"]
    min_required = {"valid_accepted": 2000, "invalid_rejected": 2000}
    cases_per_shard = 12
    eval_stat = "strings"

    def _strings(self, cfg="A"):
        rnd = random.Random(self.seed * 611953 + 13)
        quick = self.tier == "quick"
        mods = modifier_lists()
        valid = []
        for p in PATTERN_NAMES:
            for m in mods:
                for d in DHS:
                    for c in CIPHERS:
                        for h in HASHES:
                            valid.append("Noise_%s%s_%s_%s_%s" % (p, m, d, c, h))
        self.exhaustive = True
        out = []
        if False:
            # every (pattern, modifier list) once with rotating primitives, every primitive triple with every pattern
            k = 0
            prim = [(d, c, h) for d in DHS for c in CIPHERS for h in HASHES]
            for p in PATTERN_NAMES:
                for m in mods:
                    d, c, h = prim[k % len(prim)]
                    k += 5
                    out.append("Noise_%s%s_%s_%s_%s" % (p, m, d, c, h))
                for d, c, h in prim:
                    out.append("Noise_%s_%s_%s_%s" % (p, d, c, h))
        else:
            out.extend(valid)
        # permutations / psk5..psk9 / numerals
        for _ in range(400 if quick else 4000):
            n = rnd.randrange(1, 6)
            ps = rnd.sample(range(10), n)
            ms = ["psk%d" % i for i in ps]
            if rnd.random() < 0.2:
                ms.insert(rnd.randrange(len(ms) + 1), "fallback")
            out.append("Noise_%s%s_%s_%s_%s" % (rnd.choice(PATTERN_NAMES), "+".join(ms), rnd.choice(DHS), rnd.choice(CIPHERS), rnd.choice(HASHES)))
        for num in ["00", "01", "09", "10", "11", "99", "100", "255", "256", "0255", "999", "1e1", "0x1", "+1", "-1", " 1", "1 ", "", "٣", "１"]:
            for p in ("XX", "N", "X1X1"):
                out.append("Noise_%spsk%s_25519_AESGCM_SHA256" % (p, num))
                out.append("Noise_%spsk1+psk%s_25519_AESGCM_SHA256" % (p, num))
        # repeated / concatenated pattern names, duplicates at any distance
        for p in PATTERN_NAMES:
            q = rnd.choice(PATTERN_NAMES)
            for hsf in (p * 2, p * 3, p + q, p * 2 + "psk0", p + q + "psk1", p + "psk0" + p, p + "+" + p):
                out.append("Noise_%s_%s_%s_%s" % (hsf, rnd.choice(DHS), rnd.choice(CIPHERS), rnd.choice(HASHES)))
        mods5 = ["psk0", "psk1", "psk2", "psk3", "fallback"]
        for a in mods5:
            for b in mods5:
                if a == b:
                    continue
                for lst in ([a, b, a], [a, a, b], [b, a, a], [a, b, b, a], [a, b, "psk4", a], [b, a, "psk4", "psk2" if "psk2" not in (a, b) else "psk3", a]):
                    out.append("Noise_%s%s_%s_%s_%s" % (rnd.choice(PATTERN_NAMES), "+".join(lst), rnd.choice(DHS), rnd.choice(CIPHERS), rnd.choice(HASHES)))
        # duplicates of any psk position (the numeral range is 0..255), adjacent or apart
        for k in list(range(4, 13)) + [31, 32, 33, 63, 64, 65, 99, 100, 127, 128, 129, 200, 254, 255]:
            for lst in (["psk%d" % k] * 2, ["psk%d" % k, "fallback", "psk%d" % k], ["psk%d" % k, "psk0", "psk%d" % k], ["psk0", "psk%d" % k, "psk1", "psk%d" % k]):
                out.append("Noise_%s%s_%s_%s_%s" % (rnd.choice(PATTERN_NAMES), "+".join(lst), rnd.choice(DHS), rnd.choice(CIPHERS), rnd.choice(HASHES)))
            out.append("Noise_%spsk%d+psk%d_%s_%s_%s" % (rnd.choice(PATTERN_NAMES), k, (k + 1) % 256, rnd.choice(DHS), rnd.choice(CIPHERS), rnd.choice(HASHES)))
        # strings longer than 255 bytes (the spec's limit for a name) are strings like any other: pattern errors
        for ln in (256, 257, 300, 1000, 5000):
            out.append("Noise_XX_25519_AESGCM_SHA256" + "_" * (ln - 28))
            out.append("Noise_" + "X" * (ln - 26) + "_25519_AESGCM_SHA256")
            out.append("Noise_XX" + "+".join(["psk0"] * (ln // 5)) + "_25519_AESGCM_SHA256")
            out.append("Noise_XX_25519_AESGCM_SHA256".ljust(ln, "A"))
            out.append("".join(rnd.choice(ALPHABET) for _ in range(ln)))
            out.append("Noise_NNpsk1+psk2+" + "+".join("psk%d" % i for i in range(3, 3 + ln // 6)) + "_25519_ChaChaPoly_BLAKE2s")
        # prefix traps
        for hsf in ["X1X1", "X1X", "X1", "X", "XK1", "XK", "Xpsk1", "XKpsk1", "XK1psk1", "IK1", "I1K", "I1K1", "I1", "I", "IKpsk1", "I1psk1", "NK1psk0", "N1", "K1", "KK1K", "XXX", "NNN", "XX1X", "X1X1X", "1X", "xx", "Xx", "NNpsk0psk1", "NN+psk0", "NNpsk0+", "NN+", "NNfallback", "NNFallback", "NNhfs", "NNpsk0+hfs", "NNpsk", "NNps", "NNp"]:
            for tail in ["25519_AESGCM_SHA256", "P256_XChaChaPoly_BLAKE2b", "448_ChaChaPoly_SHA512", "25519+Kyber1024_AESGCM_SHA256"]:
                out.append("Noise_%s_%s" % (hsf, tail))
        for comp in ["25519", "448", "P256", "p256", "P-256", "X25519", "Curve25519", "2551", "255190", "ChaChaPoly", "chachapoly", "ChaCha", "XChaChaPoly", "AESGCM", "AES256GCM", "AESGCM ", "SHA256", "SHA512", "SHA3", "sha256", "BLAKE2s", "BLAKE2b", "Blake2s", "BLAKE2", "BLAKE3", ""]:
            out.append("Noise_XX_%s_AESGCM_SHA256" % comp)
            out.append("Noise_XX_25519_%s_SHA256" % comp)
            out.append("Noise_XX_25519_AESGCM_%s" % comp)
        for s in ["", "Noise", "Noise_", "_", "____", "_____", "Noise_XX_25519_AESGCM", "Noise_XX_25519_AESGCM_SHA256_", "_Noise_XX_25519_AESGCM_SHA256", "Noise_XX_25519_AESGCM_SHA256_X", "noise_XX_25519_AESGCM_SHA256", "NoiseXX_25519_AESGCM_SHA256", "Noise__XX_25519_AESGCM_SHA256", "Noise_XX__25519_AESGCM_SHA256", "Noise XX 25519 AESGCM SHA256", "Noise_XX_25519_AESGCM_SHA256\n", " Noise_XX_25519_AESGCM_SHA256", "NoisE_XX_25519_AESGCM_SHA256", "Noise_XX_AESGCM_25519_SHA256", "Noise_XX_25519_SHA256_AESGCM"]:
            out.append(s)
        # single edits at every position
        sample = rnd.sample(valid, 25 if quick else 400)
        for b in sample:
            for i in range(len(b) + 1):
                if i < len(b):
                    out.append(b[:i] + b[i + 1:])  # deletion
                    out.append(b[:i] + b[i] * 2 + b[i + 1:])  # duplication
                    ch = b[i]
                    out.append(b[:i] + (ch.lower() if ch.isupper() else ch.upper()) + b[i + 1:])  # case change
                    out.append(b[:i] + rnd.choice(ALPHABET) + b[i + 1:])  # replacement
                out.append(b[:i] + rnd.choice("_+1é ") + b[i:])  # insertion
                out.append(b[:i] + rnd.choice(ALPHABET) + b[i:])
        for _ in range(3000 if quick else 60000):
            ln = rnd.randrange(0, 50)
            out.append("".join(rnd.choice(ALPHABET) for _ in range(ln)))
        if cfg == "B":
            # the hfs build has a different name parser: Noise_<pattern>hfs_<dh>+<kem>_<cipher>_<hash>
            for p in PATTERN_NAMES:
                for m in ("hfs", "hfs+psk0", "psk1+hfs", "hfs+hfs", "fallback+hfs", "hfs+psk0+psk1"):
                    for dhf in ("25519+Kyber1024", "P256+Kyber1024", "25519", "25519+Kyber512", "25519+", "+Kyber1024", "25519+Kyber1024+Kyber1024", "448+Kyber1024"):
                        out.append("Noise_%s%s_%s_%s_%s" % (p, m, dhf, rnd.choice(CIPHERS), rnd.choice(HASHES)))
                out.append("Noise_%s_25519+Kyber1024_ChaChaPoly_SHA256" % p)
                out.append("Noise_%spsk0_25519+Kyber1024_ChaChaPoly_SHA256" % p)
        # deduplicate, keep order
        seen = set()
        res = []
        for s in out:
            if s not in seen:
                seen.add(s)
                res.append(s)
        return res

    def _strs(self, cfg):
        cache = self.__dict__.setdefault("_cache", {})
        if cfg not in cache:
            cache[cfg] = self._strings(cfg)
        return cache[cfg]

    def plan(self):
        return [(i, "A") for i in range(0, len(self._strs("A")), CHUNK)]

    def extra_cfg_plans(self):
        if self.tier != "thorough":
            return []
        return [(cfg, [(i, cfg) for i in range(0, len(self._strs(cfg)), CHUNK)]) for cfg in ("B", "D")]

    def build(self, desc):
        i = desc[0]
        cfg = desc[1] if len(desc) > 1 else "A"
        c = Case("parse-%s-%d" % (cfg, i), desc)
        names = self._strs(cfg)[i:i + CHUNK]
        for nm in names:
            c.op("parse", name=hx(nm.encode("utf-8")) if nm else "-")
        c.info = {"names": names, "cfg": cfg}
        return c

    def judge(self, case, events, death):
        r = core.CaseResult()
        if death is not None:
            r.foreign_dev("C10", "driver died while parsing")
            return r
        names = case.info["names"]
        for e in events:
            if not e.label.isdigit():
                continue
            nm = names[int(e.label)]
            v = recognise(nm, case.info.get("cfg", "A"))
            if e.panic:
                r.viol("C13|panic|%s" % v.kind, "parsing %r panicked instead of returning Ok or a pattern error: %s" % (nm, e.res[:120]))
                continue
            if e.skipped:
                continue
            r.stats["strings"] += 1
            if v.kind == "valid":
                if not e.ok:
                    r.viol("C13|valid-rejected|%s" % _cls(nm), "grammatical name %r rejected: %s" % (nm, e.res))
                    continue
                r.stats["valid_accepted"] += 1
            elif v.kind == "invalid":
                if e.ok:
                    r.viol("C13|invalid-accepted|%s" % v.why, "string %r outside the grammar (%s) was accepted" % (nm, v.why))
                    continue
                if not e.res.startswith("err:Pattern("):
                    r.viol("C13|error-class|%s" % core.norm_msg(e.res), "string %r rejected with %s, not a pattern error" % (nm, e.res))
                    continue
                r.stats["invalid_rejected"] += 1
                r.stats["kind_" + e.res[4:]] += 1
            else:
                r.stats["unspecified"] += 1
                if e.err and not e.res.startswith("err:Pattern("):
                    r.viol("C13|error-class|%s" % core.norm_msg(e.res), "string %r rejected with %s, not a pattern error" % (nm, e.res))
                if not e.ok:
                    continue
            if e.ok and v.pattern is not None:
                kv = e.kv
                got_mods = [] if kv.get("mods") == "-" else kv.get("mods", "").split(",")
                exp_name = nm.encode("utf-8").hex() if nm else "-"
                probs = []
                if kv.get("base") != "Noise":
                    probs.append("base")
                if kv.get("pattern") != v.pattern:
                    probs.append("pattern %s != %s" % (kv.get("pattern"), v.pattern))
                if got_mods != v.mods:
                    probs.append("modifiers %s != %s" % (got_mods, v.mods))
                if kv.get("dh") != v.dh:
                    probs.append("dh %s != %s" % (kv.get("dh"), v.dh))
                if kv.get("cipher") != v.cipher:
                    probs.append("cipher %s != %s" % (kv.get("cipher"), v.cipher))
                if kv.get("hash") != v.hash:
                    probs.append("hash %s != %s" % (kv.get("hash"), v.hash))
                if kv.get("name") != exp_name:
                    probs.append("name not verbatim")
                if "kem" in kv and kv.get("kem") != (v.kem or "none"):
                    probs.append("kem %s != %s" % (kv.get("kem"), v.kem))
                if probs:
                    r.viol("C13|fields|%s" % probs[0].split(" ")[0], "parsed value of %r names other components: %s" % (nm, "; ".join(probs)))
                elif v.kind == "valid":
                    r.stats["fields_checked"] += 1
            if v.kind != "unspecified":
                r.keys.add((case.info.get("cfg", "A"), nm))
                r.nontrivial = True
        return r


def _cls(nm):
    f = nm.split("_")
    return f[1][:4] if len(f) > 1 else "?"
