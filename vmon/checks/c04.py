"""C04 transport authentication: a transport read returns Ok only for the peer's message for this
session, direction and nonce. One hostile delivery per fresh session; 'genuine' is known by
construction (which register, which receiver, which nonce), so no crypto model is needed."""
import random

from noiseref.patterns import CIPHERS, DHS, HASHES, make_name, parse_name_simple

from noiseref import model, prims

from .. import core, sessions
from ..script import Case, gen_bytes, script_rng_bytes
from ..shadow import decode_out

BIG = sessions.BIGBUF
NONCES = [0, 1, 2, 2**32 - 1, 2**32, 2**63, 2**64 - 2]


class CheckC04(core.Check):
    id = "C04"
    level = "fault_enumeration"
    cfg = "A"
    rule = (
        "case = batch of fresh sessions (honest handshake, conversion), each with one hostile delivery to a transport read: every "
        "single-bit flip, every truncation length, extensions, reflection to the sender, cross-session messages (same keys other "
        "ephemerals / other keys), cross-direction, and in stateless mode the genuine message under another nonce (n+-1, n xor 2^k for "
        "all k, boundary and random values); 700 tag-only messages per cipher / back end / mode each cut short by one and two bytes; model-forged over-long "
        "messages with a valid tag; transport objects requested before the handshake has finished; plus the genuine control delivery which must be accepted with the written payload; "
        "distinct key = (cipher, backend pair, pattern class, mode, hostile kind, position/len class); non-trivial = the hostile read was reached"
    )
    assumptions = ["the only genuine message for (session, direction, nonce) is the one the peer's write returned; everything else must be refused"]
    min_required = {"hostile_deliveries": 10000, "genuine_controls_accepted": 200}
    cases_per_shard = 800
    eval_stat = "hostile_deliveries"

    def plan(self):
        rnd = random.Random(self.seed * 122949823 + 4)
        descs = []
        pats = ["XX", "N"] if self.tier == "quick" else ["XX", "N", "IK", "K", "NNpsk0", "X1X1", "Xpsk1", "KK", "NN", "X", "IX", "NKpsk2"]
        backends = [("D", "D"), ("R", "R"), ("DR", "D"), ("D", "R")]
        for pat in pats:
            for ci in CIPHERS:
                for be in backends:
                    for mode in ("tr", "sl"):
                        for plen in ([0, 24, 70] if self.tier == "quick" else [0, 1, 24, 70, 200]):
                            name = "Noise_%s_%s_%s_%s" % (pat, rnd.choice(DHS), ci, rnd.choice(HASHES))
                            seed = rnd.getrandbits(24)
                            n = len(self._hostile(name, mode, plen, seed))
                            for ch in range(0, n, 60):
                                descs.append((name, be[0], be[1], mode, plen, seed, ch))
        # messages forged with knowledge of the session keys (the model derives them from the scripted ephemerals):
        # over-long messages carrying a VALID tag - no peer write can produce them, they must still be refused
        for ci in CIPHERS:
            for mode in ("tr", "sl"):
                descs.append(("forge", ci, mode, rnd.getrandbits(24)))
        # many tag-only messages, each cut short by one or two bytes (a tag that happens to end in zero bytes must not
        # make its truncation acceptable), and transport objects obtained before the handshake has finished
        for ci in CIPHERS:
            for be in ("D", "R"):
                for mode in ("tr", "sl"):
                    for _ in range(1 if self.tier == "quick" else 12):
                        descs.append(("cut", ci, be, mode, rnd.getrandbits(24)))
        for pat in ("XX", "NN", "IK", "N"):
            for mode in ("tr", "sl"):
                descs.append(("early", pat, mode, rnd.getrandbits(24)))
        return descs

    def _build_cut(self, desc):
        _, ci, be, mode, seed = desc
        name = "Noise_NN_25519_%s_BLAKE2s" % ci
        parsed = parse_name_simple(name)
        c = Case("cut-%s-%s-%s-%d" % (ci, be, mode, seed), desc)
        rnd = random.Random(seed)
        keys = sessions.Keys(parsed, seed)
        sessions.add_pair(c, parsed, keys, res=(be, be), rng=("script:%d" % seed, "script:%d" % (seed + 7)), rec=("-", "-"))
        sessions.add_handshake(c, parsed, ["-", "-"], flags=("q",))
        st = mode == "sl"
        sessions.add_convert(c, stateless=st)
        wop, rop = ("st_write", "st_read") if st else ("t_write", "t_read")
        subs = []
        for j in range(700):
            kw = {"n": j} if st else {}
            lw = c.op(wop, "A", pay="-", buf=BIG, out="g", flags=("q",), **kw)
            for cut in (15, 14) if j % 2 else (15,):
                lr = c.op(rop, "B", msg="$g~trunc:%d" % cut, buf=rnd.choice([BIG, 0, 16]), flags=("q",), **kw)
                subs.append((j, lw, lr, "trunc", "~trunc:%d (tag-only message %d)" % (cut, j), 0))
            c.op(rop, "B", msg="$g", buf=BIG, flags=("q",), **kw)
        c.meta["subs"] = subs
        c.info = {"name": name, "key": (ci, be, be, "interactive", mode)}
        return c

    def _build_early(self, desc):
        _, pat, mode, seed = desc
        name = "Noise_%s_25519_ChaChaPoly_SHA256" % pat
        parsed = parse_name_simple(name)
        c = Case("early-%s-%s-%d" % (pat, mode, seed), desc)
        keys = sessions.Keys(parsed, seed)
        early = []
        j = 0
        for upto in range(parsed.nmsgs):
            for who in (0, 1):
                for tf in (True, False):
                    a, b = "A%d" % j, "B%d" % j
                    j += 1
                    sessions.add_pair(c, parsed, keys, rng=("script:%d" % seed, "script:%d" % (seed + 7)), rec=("-", "-"), ids=(a, b))
                    sessions.add_handshake(c, parsed, ["-"] * parsed.nmsgs, ids=(a, b), flags=("q",), upto=upto, prefix="e%d_" % j)
                    p = (a, b)[who]
                    lc = c.op("to_stateless" if mode == "sl" else "to_transport", p, flags=("tf",) if tf else ())
                    kw = {"n": 3} if mode == "sl" else {}
                    wop, rop = ("st_write", "st_read") if mode == "sl" else ("t_write", "t_read")
                    lw = c.op(wop, p, pay="gen:9:early", buf=BIG, out="z%d" % j, **kw)
                    lr = c.op(rop, p, msg="$z%d" % j, buf=BIG, **kw)
                    early.append((lc, lw, lr, upto, who, tf))
        c.meta["early"] = early
        c.info = {"name": name, "key": ("ChaChaPoly", "D", "D", "early", mode)}
        return c

    def _build_forge(self, desc):
        _, ci, mode, seed = desc
        name = "Noise_NN_25519_%s_SHA256" % ci
        parsed = parse_name_simple(name)
        c = Case("forge-%s-%s-%d" % (ci, mode, seed), desc)
        e_a = script_rng_bytes(str(seed), 0, 0, 32)
        e_b = script_rng_bytes(str(seed + 7), 0, 0, 32)
        ini = model.HandshakeState(name, True, parsed=parsed)
        res = model.HandshakeState(name, False, parsed=parsed)
        res.read_message(ini.write_message(b"", e_a))
        ini.read_message(res.write_message(b"", e_b))
        k_ir = ini.c_i.k
        st = mode == "sl"
        subs = []
        for j, total in enumerate([65535, 65536, 65537, 65551, 65552]):
            a, b = "A%d" % j, "B%d" % j
            keys = sessions.Keys(parsed, seed)
            sessions.add_pair(c, parsed, keys, rng=("script:%d" % seed, "script:%d" % (seed + 7)), rec=("-", "-"), ids=(a, b))
            sessions.add_handshake(c, parsed, ["-", "-"], ids=(a, b), flags=("q",), prefix="h%d_" % j)
            sessions.add_convert(c, ids=(a, b), stateless=st)
            n = 0
            msg = prims.aead_encrypt(ci, k_ir, n, b"", gen_bytes("forged%d" % j, total - 16))
            kw = {"n": n} if st else {}
            lr = c.op("st_read" if st else "t_read", b, msg="lit:" + msg.hex(), buf=BIG, flags=("q",), **kw)
            subs.append((lr, total))
        c.meta["forged"] = subs
        c.info = {"name": name, "key": (ci, "D", "D", "interactive", mode)}
        return c

    def _hostile(self, name, mode, plen, seed):
        rnd = random.Random(seed)
        total = plen + 16
        out = []
        for b in range(total * 8):
            out.append(("flip", "~flip:%d" % b))
        for t in range(total):
            out.append(("trunc", "~trunc:%d" % t))
        for n in (1, 15, 16, 17, 100):
            out.append(("ext", "~ext:gen:%d:x" % n))
        out.append(("oversize", "~ext:zero:%d" % (65536 - total)))
        out += [("reflect", "R"), ("xsession-eph", "E"), ("xsession-keys", "K"), ("xdir", "X"), ("replay", "P"), ("garbage", "gen:%d:gb" % total), ("zeros", "zero:%d" % total)]
        if mode == "sl":
            base = rnd.choice(NONCES)
            alts = {base ^ (1 << k) for k in range(64)} | {base + 1, base - 1, 0, 1, 2**32 - 1, 2**32, 2**63, 2**64 - 2, rnd.getrandbits(64)}
            for a in sorted(alts):
                if 0 <= a < 2**64 - 1 and a != base:
                    out.append(("nonce", "N%d/%d" % (base, a)))
        return out

    def build(self, desc):
        if desc[0] == "forge":
            return self._build_forge(desc)
        if desc[0] == "cut":
            return self._build_cut(desc)
        if desc[0] == "early":
            return self._build_early(desc)
        name, be0, be1, mode, plen, seed, ch = desc
        parsed = parse_name_simple(name)
        hostile = [("control", "")] + self._hostile(name, mode, plen, seed)[ch:ch + 60]
        rnd = random.Random(seed + ch)
        c = Case("ta-%s-%s%s-%s-%d-%d-%d" % (name, be0, be1, mode, plen, seed, ch), desc)
        keys = sessions.Keys(parsed, seed)
        keys2 = sessions.Keys(parsed, seed + 1)
        st = mode == "sl"
        wop, rop = ("st_write", "st_read") if st else ("t_write", "t_read")
        subs = []
        for j, (kind, arg) in enumerate(hostile):
            a, b = "A%d" % j, "B%d" % j
            d = 0 if parsed.oneway else rnd.randrange(2)
            sessions.add_pair(c, parsed, keys, res=(be0, be1), rng=("script:%d" % seed, "script:%d" % (seed + 7)), rec=("-", "-"), ids=(a, b))
            sessions.add_handshake(c, parsed, ["-"] * parsed.nmsgs, ids=(a, b), flags=("q",), prefix="h%d_" % j)
            sessions.add_convert(c, ids=(a, b), stateless=st)
            w, r = (a, b) if d == 0 else (b, a)
            if rnd.random() < 0.25:
                # both ends install fresh keys through the combined call (initiator key only, responder key only, or both);
                # the two directions must stay distinct channels
                ki, kr = gen_bytes("mi%d.%d" % (seed, j), 32).hex(), gen_bytes("mr%d.%d" % (seed, j), 32).hex()
                which = rnd.choice(["i", "r", "b"])
                for pid in (a, b):
                    c.op("rekey_manual", pid, i=ki if which in "ib" else "-", r=kr if which in "rb" else "-")
            # a few earlier messages so that the counter is not 0
            pre = rnd.randrange(0, 3)
            n0 = pre
            if st and kind == "nonce":
                base, alt = [int(x) for x in arg[1:].split("/")]
                n0 = base
            elif st:
                n0 = rnd.choice(NONCES)
            else:
                for i in range(pre):
                    c.op(wop, w, pay="gen:5:pre%d" % i, buf=BIG, out="p%d_%d" % (j, i), flags=("q",))
                    c.op(rop, r, msg="$p%d_%d" % (j, i), buf=BIG, flags=("q",))
                if kind in ("replay", "flip", "control", "reflect") and rnd.random() < 0.5:
                    # put both counters of this direction at a boundary value (sender through the hook)
                    bn = rnd.choice([2**32 - 1, 2**32, 2**63, 2**64 - 3, 2**64 - 2])
                    c.op("set_tx_nonce", w, n=bn)
                    c.op("set_rx_nonce", r, n=bn)
            kw = {"n": n0} if st else {}
            lw = c.op(wop, w, pay="gen:%d:pay%d" % (plen, j), buf=BIG, out="g%d" % j, **kw)
            target = r
            rkw = dict(kw)
            msg = "$g%d" % j
            if kind in ("control",):
                pass
            elif kind in ("flip", "trunc", "ext", "oversize"):
                msg += arg
            elif kind in ("garbage", "zeros"):
                msg = arg
            elif kind == "reflect":
                target = w
            elif kind == "xdir":
                # the peer's message of the OTHER direction with the same number
                if parsed.oneway:
                    continue
                c.op(wop, r, pay="gen:%d:pay%d" % (plen, j), buf=BIG, out="x%d" % j, **kw)
                msg = "$x%d" % j
            elif kind == "replay":
                if st:
                    continue
                # deliver, then deliver the same message again: the second one is hostile
                c.op(rop, r, msg=msg, buf=BIG, flags=("q",))
            elif kind in ("xsession-eph", "xsession-keys"):
                kk = keys if kind == "xsession-eph" else keys2
                a2, b2 = "C%d" % j, "D%d" % j
                sessions.add_pair(c, parsed, kk, res=(be0, be1), rng=("script:%d" % (seed + 50), "script:%d" % (seed + 57)), rec=("-", "-"), ids=(a2, b2))
                sessions.add_handshake(c, parsed, ["-"] * parsed.nmsgs, ids=(a2, b2), flags=("q",), prefix="k%d_" % j)
                sessions.add_convert(c, ids=(a2, b2), stateless=st)
                w2 = a2 if d == 0 else b2
                if not st:
                    for i in range(pre):
                        c.op(wop, w2, pay="gen:5:pre%d" % i, buf=BIG, flags=("q",))
                c.op(wop, w2, pay="gen:%d:pay%d" % (plen, j), buf=BIG, out="y%d" % j, **kw)
                msg = "$y%d" % j
            elif kind == "nonce":
                rkw = {"n": alt}
            # output buffers: large, exactly the payload length (0 for an empty payload), or message length
            lr = c.op(rop, target, msg=msg, buf=rnd.choice([BIG, plen, plen, plen + rnd.randrange(1, 16), plen + 16]), **rkw)
            subs.append((j, lw, lr, kind, arg, plen))
        c.meta["subs"] = subs
        c.info = {"name": name, "key": (name.split("_")[3], be0, be1, "oneway" if parsed.oneway else "interactive", mode)}
        return c

    def judge(self, case, events, death):
        r = core.CaseResult()
        name = case.info["name"]
        if death is not None:
            r.foreign_dev("C10", "driver died")
            return r
        by = {e.label: e for e in events}
        if "forged" in case.meta:
            ci, _, _, _, mode = case.info["key"]
            sane = False
            for lr, total in case.meta["forged"]:
                e = by.get(str(lr))
                if e is None or e.skipped:
                    continue
                if total <= 65535:
                    # sanity of the forging itself: a legal-size message under the derived key must be accepted
                    sane = e.ok
                    r.stats["forged_legal_accepted" if e.ok else "forged_legal_rejected"] += 1
                    continue
                if not sane:
                    r.inconclusive.append("forged legal-size message was not accepted: key derivation of the oracle does not match (%s)" % case.id)
                    break
                r.stats["hostile_deliveries"] += 1
                r.stats["hostile_forged_overlong"] += 1
                if e.ok:
                    r.viol("C04|accepted|forged-overlong|%s" % mode, "%s %s: a %d-byte message with a valid tag (longer than any message a peer can write) was accepted: %s" % (ci, mode, total, e.res))
                elif e.panic:
                    r.viol("C04|panic|forged-overlong", "%s %s: read panicked on a forged %d-byte message" % (ci, mode, total))
                else:
                    r.nontrivial = True
                    r.keys.add((ci, mode, "forged", total))
            return r
        if "early" in case.meta:
            for lc, lw, lr, upto, who, tf in case.meta["early"]:
                ec, ew, er = by.get(str(lc)), by.get(str(lw)), by.get(str(lr))
                if ec is None or not ec.ok:
                    r.stats["premature_conversions_refused"] += 1
                    r.nontrivial = True
                    r.keys.add((case.info["name"], "early", upto, who, tf))
                    continue
                # the conversion itself is C11's matter; what the object then accepts is this property's
                r.foreign_dev("C11", "conversion to transport mode succeeded after %d of the handshake's messages" % upto)
                if ew is not None and ew.ok and er is not None and er.ok:
                    r.viol("C04|accepted|reflect-unfinished|%s" % case.info["key"][4], "%s: a transport object obtained after %d handshake message(s) (%s) reads back its own message: %s" % (case.info["name"], upto, "TryFrom" if tf else "into_*", er.res))
            return r
        for j, lw, lr, kind, arg, plen in case.meta["subs"]:
            ew, er = by.get(str(lw)), by.get(str(lr))
            if ew is None or er is None or not ew.ok:
                r.foreign_dev("C02", "honest session did not reach the transport write")
                continue
            if er.panic and kind != "control":
                r.viol("C04|panic|%s" % kind, "%s: transport read panicked on a hostile delivery (%s %s) instead of returning an error: %s" % (name, kind, arg[:30], er.res[:120]))
                continue
            if er.panic:
                r.foreign_dev("C10", "transport read panicked")
                continue
            if er.skipped:
                continue
            if kind == "control":
                exp = gen_bytes("pay%d" % j, plen)
                b, ln, _ = decode_out(er.kv.get("out"))
                if not er.ok:
                    # C04 states "Ok only for the genuine message"; that the genuine one IS accepted is C02's predicate
                    r.foreign_dev("C02", "the peer's genuine message was rejected")
                elif b != exp:
                    r.viol("C04|payload|%s" % er.op, "%s: genuine message accepted with a payload different from the written one" % name)
                else:
                    r.stats["genuine_controls_accepted"] += 1
                continue
            r.stats["hostile_deliveries"] += 1
            r.stats["hostile_" + kind] += 1
            if er.ok:
                cls = kind
                if kind == "flip":
                    bit = int(arg.split(":")[1])
                    cls = "flip-tag" if bit // 8 >= plen else "flip-body"
                r.viol(
                    "C04|accepted|%s|%s" % (cls, case.info["key"][4]),
                    "%s (%s/%s, %s): transport read returned %s for a message that is not the peer's message for this session, direction and nonce (%s %s)"
                    % (name, case.info["key"][1], case.info["key"][2], case.info["key"][4], er.res, kind, arg[:40]),
                )
                continue
            r.stats["rejected_" + er.errkind()] += 1
            r.nontrivial = True
            pos = arg if kind in ("flip", "trunc") else (arg.split("/")[0] if kind == "nonce" else "")
            r.keys.add(case.info["key"] + (kind, pos if kind != "nonce" else arg))
        return r
