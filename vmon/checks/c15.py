"""C15 rekey. Oracle: per endpoint and direction a (key, nonce) pair; the initial keys are read off
the recording resolver (the two `set` calls of Split()), REKEY(k) is computed by the model's own
AEAD as ENCRYPT(k, 2^64-1, "", 32 zero bytes)[:32]; every later message must be byte-identical to
the model's and is accepted iff sender and receiver keys agree (and the nonce matches)."""
import itertools
import random

from noiseref import prims
from noiseref.patterns import CIPHERS, DHS, HASHES, parse_name_simple

from .. import core, sessions
from ..script import Case, gen_bytes
from ..shadow import decode_out

BIG = sessions.BIGBUF
K1 = gen_bytes("manual-key-1", 32)
K2 = gen_bytes("manual-key-2", 32)

SYMS = ["wd0", "wx0", "wd1", "wx1", "roA", "riA", "roB", "riB"] + ["m%s%s%d" % (p, d, k) for p in "AB" for d in "ir" for k in (1, 2)] + ["mAb1", "mBb1", "mAb2", "mBb2"]
# m<party>b<k>: both directions in ONE rekey_manually(Some, Some) call (k=1: i:=K1, r:=K2; k=2: i:=K2, r:=K1)
ONEWAY_SYMS = [i for i, s in enumerate(SYMS) if s not in ("wd1", "wx1")]
NBASE = len(SYMS)
# stateful only: rekey while the direction's counters are parked on 2^64-1, then move them to a fresh value
# (prk<d>: sender rekeys outgoing AND receiver incoming; pro<d>: only the sender rekeys -> keys must disagree)
SYMS += ["prk0", "prk1", "pro0", "pro1"]
PARK_SYMS = [SYMS.index(x) for x in ("wd0", "wd1", "prk0", "prk1", "pro0", "pro1", "roA", "riB")]
MAXN = 2**64 - 1


def custom_rekey(k):
    import hashlib

    return hashlib.sha256(b"verif-rekey" + k).digest()


class CheckC15(core.Check):
    id = "C15"
    level = "exploration"
    cfg = "A"
    rule = (
        "case = one session (stateful or stateless) driven through a sequence over {write+deliver / write+drop in either direction, "
        "rekey_outgoing / rekey_incoming on either side, manual rekey of either direction on either side with one of two keys (random, all-zero, all-ones), a back end with its own REKEY}; every "
        "written message compared byte-for-byte with the model's AEAD under the model key (REKEY per spec 4.2), every delivery accepted iff "
        "keys agree (and counters match), nonce getters unchanged by rekeys; exhaustive to the depth bound, random to depth 30; distinct key = "
        "(cipher, backend, mode, sequence); non-trivial = sequence contains a rekey followed by at least one judged message"
    )
    assumptions = ["initial transport keys are taken from the recorded Cipher::set calls of the real session; REKEY and the AEAD are the model's own"]
    min_required = {"messages_after_rekey_compared": 3000, "rejections_after_desync": 500, "rekeys": 3000}
    cases_per_shard = 800

    def plan(self):
        rnd = random.Random(self.seed * 217645177 + 15)
        quick = self.tier == "quick"
        descs = []
        for ci in CIPHERS:
            for be in (["D"] if quick else ["D", "R", "DR"]):
                for mode in ("tr", "sl"):
                    depth = 3 if quick else 4
                    if (ci, be, mode) == ("ChaChaPoly", "D", "tr"):
                        depth += 1
                    for ln in range(1, depth + 1):
                        for seq in itertools.product(range(NBASE), repeat=ln):
                            if not any(SYMS[i][0] in "rm" for i in seq) or not any(SYMS[i][0] == "w" for i in seq):
                                continue
                            descs.append((ci, be, mode, ".".join(map(str, seq))))
        self.exhaustive = True
        for _ in range(8000 if quick else 300000):
            ln = rnd.randrange(4, 31)
            seq = [rnd.randrange(len(SYMS)) if rnd.random() < 0.5 else rnd.randrange(4) for _ in range(ln)]
            descs.append((rnd.choice(CIPHERS), rnd.choice(["D", "R", "DR"]), rnd.choice(["tr", "sl", "mixA", "mixB"]), ".".join(map(str, seq))))
        # special manual keys (all zero, all ones) - exhaustive to depth 2 over the manual-rekey and write symbols, and random
        msyms = [i for i, x in enumerate(SYMS[:NBASE]) if x[0] in "wm"]
        for ci in CIPHERS:
            for mode in ("tr", "sl"):
                for ln in (2, 3):
                    for seq in itertools.product(msyms, repeat=ln):
                        if SYMS[seq[0]][0] != "m" or SYMS[seq[-1]][0] != "w" or (ln == 3 and rnd.random() < 0.9):
                            continue
                        descs.append((ci, "D", mode, ".".join(map(str, seq)), "XX" + "0f"[len(descs) % 2]))
        # one endpoint stateless, the other stateful (mixA: initiator stateless; mixB: responder stateless)
        # rekeys issued while a counter sits on 2^64-1 (stateful), exhaustively to length 3 over a small alphabet
        for ci in CIPHERS:
            for ln in range(2, 4):
                for seq in itertools.product(PARK_SYMS, repeat=ln):
                    if not any(SYMS[i][0] == "p" for i in seq) or not any(SYMS[i][0] == "w" for i in seq):
                        continue
                    descs.append((ci, "D", "tr", ".".join(map(str, seq))))
        # a cipher that defines its own REKEY (resolver spec `+rk`): stateful, stateless and mixed must all use it
        for ci in CIPHERS:
            for mode in ("tr", "sl", "mixA", "mixB"):
                for ln in range(1, 3 if quick else 4):
                    for seq in itertools.product(range(8), repeat=ln):
                        if not any(SYMS[i][0] == "r" for i in seq) or not any(SYMS[i][0] == "w" for i in seq):
                            continue
                        descs.append((ci, "D+rk", mode, ".".join(map(str, seq))))
        for mode in ("mixA", "mixB"):
            for ln in range(1, 4):
                for seq in itertools.product(range(NBASE), repeat=ln):
                    if not any(SYMS[i][0] in "rm" for i in seq) or not any(SYMS[i][0] == "w" for i in seq):
                        continue
                    descs.append((rnd.choice(CIPHERS), "D", mode, ".".join(map(str, seq))))
        # one-way pattern (only the initiator writes; rekeys of the unused direction must not disturb the used one)
        for ci in CIPHERS:
            for mode in ("tr", "sl"):
                for ln in range(1, 4 if quick else 5):
                    for seq in itertools.product(ONEWAY_SYMS, repeat=ln):
                        if not any(SYMS[i][0] in "rm" for i in seq) or not any(SYMS[i][0] == "w" for i in seq):
                            continue
                        descs.append((ci, "D", mode, ".".join(map(str, seq)), "N"))
        return descs

    def build(self, desc):
        ci, be, mode, seqs = desc[:4]
        pat = desc[4] if len(desc) > 4 else "XX"
        # "<pattern>0": manual key 1 is the all-zero key (a key like any other), "<pattern>f": all 0xff
        K1, K2 = globals()["K1"], globals()["K2"]
        if pat[-1] in "0f":
            K1 = bytes(32) if pat[-1] == "0" else b"\xff" * 32
            pat = pat[:-1]
        name = "Noise_%s_25519_%s_SHA256" % (pat, ci)
        parsed = parse_name_simple(name)
        keys = sessions.Keys(parsed, 15)
        c = Case("rk-%s-%s-%s-%s-%s" % (desc[4] if len(desc) > 4 else "XX", ci, be, mode, seqs), desc)
        sessions.add_pair(c, parsed, keys, res=(be, be), rng=("script:3", "script:4"), rec=("c", "c"))
        sessions.add_handshake(c, parsed, ["-"] * parsed.nmsgs)
        stp = {"A": mode in ("sl", "mixA"), "B": mode in ("sl", "mixB")}
        c.op("to_stateless" if stp["A"] else "to_transport", "A")
        c.op("to_stateless" if stp["B"] else "to_transport", "B")
        steps = []
        cnt = [0, 0]
        # control: two plain messages per direction before any rekey. If these already differ from the model's AEAD
        # the build does not conform at the primitive level (C01/C18's business) and the case is not judged.
        for d in ((0,) if parsed.oneway else (0, 1)):
            w, r = ("A", "B") if d == 0 else ("B", "A")
            for j in range(2):
                kk = 1000 + 2 * d + j
                lw = c.op("st_write" if stp[w] else "t_write", w, pay="gen:10:p%d" % kk, buf=BIG, out="m%d" % kk, **({"n": cnt[d]} if stp[w] else {}))
                steps.append((lw, "w", w, d, kk))
                lr = c.op("st_read" if stp[r] else "t_read", r, msg="$m%d" % kk, buf=BIG, **({"n": cnt[d]} if stp[r] else {}))
                steps.append((lr, "r", r, d, kk))
                cnt[d] += 1
        for k, i in enumerate(int(x) for x in seqs.split(".")):
            sym = SYMS[i]
            if sym[0] == "w":
                d = int(sym[2])
                w, r = ("A", "B") if d == 0 else ("B", "A")
                lw = c.op("st_write" if stp[w] else "t_write", w, pay="gen:10:p%d" % k, buf=BIG, out="m%d" % k, **({"n": cnt[d]} if stp[w] else {}))
                steps.append((lw, "w", w, d, k))
                if sym[1] == "d":
                    lr = c.op("st_read" if stp[r] else "t_read", r, msg="$m%d" % k, buf=BIG, **({"n": cnt[d]} if stp[r] else {}))
                    steps.append((lr, "r", r, d, k))
                cnt[d] += 1
            elif sym[0] == "r":
                lab = c.op("rekey_out" if sym[1] == "o" else "rekey_in", sym[2])
                steps.append((lab, sym[:2], sym[2], None, k))
            elif sym[0] == "p":
                d = int(sym[3])
                if parsed.oneway and d == 1:
                    continue
                w, r = ("A", "B") if d == 0 else ("B", "A")
                if stp[w] or stp[r]:
                    continue  # counters exist only on stateful endpoints
                v = 5000 + k
                steps.append((c.op("set_tx_nonce", w, n=MAXN), "settx", w, MAXN, k))
                steps.append((c.op("set_rx_nonce", r, n=MAXN), "setrx", r, MAXN, k))
                steps.append((c.op("rekey_out", w), "ro", w, None, k))
                if sym[2] == "k":
                    steps.append((c.op("rekey_in", r), "ri", r, None, k))
                steps.append((c.op("set_tx_nonce", w, n=v), "settx", w, v, k))
                steps.append((c.op("set_rx_nonce", r, n=v), "setrx", r, v, k))
                cnt[d] = v
            elif sym[2] == "b":
                p = sym[1]
                ki, kr = (K1, K2) if sym[3] == "1" else (K2, K1)
                lab = c.op("rekey_manual", p, i=ki.hex(), r=kr.hex())
                steps.append((lab, "mb", p, ki.hex() + "/" + kr.hex(), k))
            else:
                p, d, kk = sym[1], sym[2], K1 if sym[3] == "1" else K2
                lab = c.op("rekey_manual", p, i=kk.hex() if d == "i" else "-", r=kk.hex() if d == "r" else "-", flags=("sep",) if k % 2 else ())
                steps.append((lab, "m" + d, p, kk.hex(), k))
        c.meta["steps"] = steps
        c.info = {"key": desc, "st": stp, "cipher": ci}
        return c

    def judge(self, case, events, death):
        r = core.CaseResult()
        if death is not None:
            r.foreign_dev("C10", "driver died")
            return r
        ci, be, mode, seqs = case.info["key"][:4]
        tag = "%s/%s/%s%s" % (ci, be, mode, ("/" + case.info["key"][4]) if len(case.info["key"]) > 4 else "")
        st = case.info["st"]
        by = {e.label: e for e in events}
        # initial keys: the last two `c set` events on each party during the handshake (Split: initiator key, responder key)
        init = {}
        for p in ("A", "B"):
            sets = [kv["key"] for e in events if e.party == p and e.op in ("hs_write", "hs_read") for kind, sub, kv in e.subs if kind == "c" and sub == "set"]
            if len(sets) < 2:
                r.foreign_dev("C02", "handshake did not finish")
                return r
            init[p] = (bytes.fromhex(sets[-2]), bytes.fromhex(sets[-1]))
        if init["A"] != init["B"]:
            r.foreign_dev("C02", "parties derived different transport keys")
            return r
        # model: key[party][dir], nonce counters per party: sn, rn (stateful)
        key = {p: [init[p][0], init[p][1]] for p in ("A", "B")}
        sn = {"A": 0, "B": 0}
        rn = {"A": 0, "B": 0}
        written = {}  # k -> (bytes, nonce, key used)
        rekeyed = False
        last_rk = "-"
        after = 0
        cnt = [0, 0]
        for lab, kind, p, d, k in case.meta["steps"]:
            e = by.get(str(lab))
            if e is None or e.skipped:
                r.foreign_dev("C02", "session did not reach this step")
                return r
            if e.panic:
                r.foreign_dev("C10", "panic in %s" % e.op)
                return r
            if kind == "w":
                n = cnt[d] if st[p] else sn[p]
                pay = gen_bytes("p%d" % k, 10)
                exp = prims.aead_encrypt(ci, key[p][d], n, b"", pay)
                if not e.ok:
                    if rekeyed:
                        r.viol("C15|write-failed|%s" % last_rk, "%s: transport write failed after %s: %s" % (tag, last_rk, e.res))
                    else:
                        r.foreign_dev("C02", "write failed")
                    return r
                b, _, _ = decode_out(e.kv.get("out"))
                if b != exp:
                    if rekeyed:
                        r.viol("C15|bytes|after-%s|%s" % (last_rk, mode), "%s: message after %s is not the one the specification's REKEY / the installed key yields (sequence %s)" % (tag, last_rk, seqs))
                    else:
                        r.foreign_dev("C01", "transport bytes differ before any rekey")
                    return r
                written[k] = (exp, n, key[p][d])
                cnt[d] += 1
                if not st[p]:
                    sn[p] += 1
                if rekeyed:
                    after += 1
                    r.stats["messages_after_rekey_compared"] += 1
            elif kind == "r":
                msg, n, kused = written[k]
                nonce_ok = True if st[p] else (n == rn[p])
                should = (key[p][d] == kused) and nonce_ok
                if should:
                    if not e.ok:
                        if rekeyed:
                            r.viol("C15|in-sync-rejected|after-%s|%s" % (last_rk, mode), "%s: both sides hold the same key for the direction yet the message was rejected (%s); sequence %s" % (tag, e.res, seqs))
                        else:
                            r.foreign_dev("C02", "read failed before any rekey")
                        return r
                    b, _, _ = decode_out(e.kv.get("out"))
                    if b != gen_bytes("p%d" % k, 10):
                        r.foreign_dev("C04", "payload differs")
                        return r
                    if not st[p]:
                        rn[p] += 1
                    if rekeyed:
                        after += 1
                        r.stats["deliveries_after_rekey_accepted"] += 1
                else:
                    if e.ok:
                        if key[p][d] != kused:
                            r.viol("C15|desync-accepted|after-%s|%s" % (last_rk, mode), "%s: sender and receiver keys differ after %s, yet the message was accepted; sequence %s" % (tag, last_rk, seqs))
                        else:
                            r.foreign_dev("C05", "out-of-order message accepted")
                        return r
                    if key[p][d] != kused:
                        r.stats["rejections_after_desync"] += 1
                        after += 1
            else:
                if kind not in ("settx", "setrx"):
                    rekeyed = True
                    r.stats["rekeys"] += 1
                ini = p == "A"
                rk = custom_rekey if be.endswith("+rk") else (lambda kk: prims.rekey(ci, kk))
                if kind == "settx":
                    sn[p] = d
                    cnt[0 if ini else 1] = d
                elif kind == "setrx":
                    rn[p] = d
                elif kind == "ro":
                    dd = 0 if ini else 1
                    key[p][dd] = rk(key[p][dd])
                elif kind == "ri":
                    dd = 1 if ini else 0
                    key[p][dd] = rk(key[p][dd])
                elif kind == "mi":
                    key[p][0] = bytes.fromhex(d)
                elif kind == "mb":
                    ki, kr = d.split("/")
                    key[p][0] = bytes.fromhex(ki)
                    key[p][1] = bytes.fromhex(kr)
                else:
                    key[p][1] = bytes.fromhex(d)
                if kind not in ("settx", "setrx"):
                    last_rk = {"ro": "rekey_outgoing", "ri": "rekey_incoming", "mi": "manual-initiator-key", "mr": "manual-responder-key", "mb": "manual-both-keys"}[kind]
            if not st[p]:
                o = e.obs()
                if o.get("sn") != str(sn[p]) or o.get("rn") != str(rn[p]):
                    if kind in ("ro", "ri", "mi", "mr", "mb"):
                        r.viol("C15|nonce-changed|%s" % last_rk, "%s: %s changed a nonce: sending=%s receiving=%s, model %d / %d" % (tag, last_rk, o.get("sn"), o.get("rn"), sn[p], rn[p]))
                    else:
                        r.foreign_dev("C09", "nonce getter differs from the model")
                    return r
        if rekeyed and after:
            r.nontrivial = True
        r.keys.add(case.info["key"])
        return r
