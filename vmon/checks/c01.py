"""C01 wire-level conformance: byte-exact lock-step comparison against the independent model."""
import json
import random

from noiseref import model, prims, selftest
from noiseref.patterns import CIPHERS, DHS, HASHES, all_names, all_variants, make_name, parse_name_simple

from .. import core, faults, sessions
from ..script import Case, gen_bytes, hx
from ..shadow import Shadow

OWN = {"bytes", "len", "payload", "res", "obs.hh", "obs.wpe"}
FOREIGN = {
    "panic": "C10",
    "obs.turn": "C11",
    "obs.fin": "C11",
    "obs.rs": "C17",
    "obs.sn": "C09",
    "obs.rn": "C09",
    "obs.changed": "C07",
    "errkind": "C11",
    "obs.init": "C11",
    "obs.state": "C11",
}

VEC_PATH = "/repo/tests/vectors/cacophony.txt"


class CheckC01(core.Check):
    id = "C01"
    level = "exploration"
    cfg = "A"
    rule = (
        "case = one honest session (snow<->snow, or snow against messages pre-computed by the model, or a third-party "
        "cacophony vector) judged byte-for-byte by the lock-step model; distinct key = (protocol name, mode, payload-length "
        "classes, transport shape); non-trivial = every handshake message and >=1 hash compared with no op left unjudged"
    )
    assumptions = [
        "reference model = independent Python transcription of Noise rev 34, validated on RFC vectors and 472 cacophony vectors",
        "OpenSSL/libsodium accelerators only after agreeing with the pure implementations",
    ]
    min_required = {"hs_msgs_compared": 100, "hashes_compared": 100}
    cases_per_shard = 150

    def selftest(self):
        r = selftest.run_all(vectors=True)
        if not r["ok"]:
            raise core.Inconclusive("oracle self-test failed: %r" % (r,))
        return r

    def plan(self):
        rnd = random.Random(self.seed * 7919 + 1)
        descs = []
        combos = [(d, c, h) for d in DHS for c in CIPHERS for h in HASHES]
        names = list(all_names())
        self.exhaustive = True  # the name space (556 handshake variants x 24 primitive combinations) is enumerated; inputs are sampled
        if self.tier == "quick":
            for n in names:
                descs.append(("ss", n, rnd.getrandbits(32)))
            for n in rnd.sample(names, 1500):
                descs.append(("mp", n, rnd.getrandbits(32), rnd.choice("ir")))
            for n in rnd.sample(names, 3000):
                descs.append(("fl", n, rnd.getrandbits(32)))
        else:
            for n in names:
                for _ in range(6):
                    descs.append(("ss", n, rnd.getrandbits(32)))
                for role in "ir":
                    descs.append(("mp", n, rnd.getrandbits(32), role))
                for _ in range(2):
                    descs.append(("fl", n, rnd.getrandbits(32)))
        try:
            nvec = len(json.load(open(VEC_PATH))["vectors"])
            for i in range(nvec):
                descs.append(("vec", i))
        except OSError:
            pass
        return descs

    # ------------------------------------------------------------ builders

    def build(self, desc):
        kind = desc[0]
        if kind == "ss":
            return self._build_ss(desc)
        if kind == "mp":
            return self._build_mp(desc)
        if kind == "fl":
            return self._build_fl(desc)
        return self._build_vec(desc)

    def _inputs(self, parsed, rnd):
        maxp = sessions.max_payloads(parsed)
        big = rnd.random() < 0.08
        pays = []
        for m in maxp:
            ln = sessions.payload_len_choice(rnd, m, 0.3 if big else 0.0)
            pays.append(ln)
        prologue = sessions.prologue_choice(rnd, prims.hashlen(parsed.hash), prims.blocklen(parsed.hash))
        ntr = rnd.randrange(0, 7)
        plan = []
        for _ in range(ntr):
            d = 0 if parsed.oneway else rnd.randrange(2)
            ln = sessions.payload_len_choice(rnd, 65535 - 16, 0.03)
            plan.append((d, ln))
        return pays, prologue, plan

    def _build_ss(self, desc):
        _, name, seed = desc
        parsed = parse_name_simple(name)
        rnd = random.Random(seed)
        keys = sessions.Keys(parsed, seed)
        pays, prologue, plan = self._inputs(parsed, rnd)
        c = Case("ss-%s-%d" % (name, seed), desc)
        res = (rnd.choice(["D", "D", "R", "DR"]), rnd.choice(["D", "D", "R", "DR"]))
        rng = tuple(rnd.choice(["script:%d" % rnd.getrandbits(32), "os"]) for _ in range(2))
        supply = tuple(rnd.choice(["needed", "needed", "needed", "all"]) for _ in range(2))
        late = (tuple(n for n in parsed.psks if rnd.random() < 0.15), tuple(n for n in parsed.psks if rnd.random() < 0.15))
        sessions.add_pair(c, parsed, keys, res=res, rng=rng, prologue=(prologue, prologue), supply=supply, late=late)
        sessions.add_handshake(c, parsed, ["gen:%d:hp%d.%d" % (ln, seed, i) for i, ln in enumerate(pays)], late=late, keys=keys)
        stateless = rnd.random() < 0.4
        sessions.add_convert(c, stateless=stateless)
        nonces = None
        if stateless:
            nonces = [rnd.choice([0, 1, 2**32 - 1, 2**32, 2**63, 2**64 - 2, rnd.getrandbits(64) % (2**64 - 1)]) for _ in plan]
        rekey_at = tuple(i for i in range(len(plan)) if rnd.random() < 0.2)
        sessions.add_transport(c, parsed, [(d, "gen:%d:tp%d.%d" % (ln, seed, i)) for i, (d, ln) in enumerate(plan)], stateless=stateless, nonces=nonces, rekey_at=rekey_at)
        c.info = {"name": name, "mode": "ss", "shape": (tuple(_cls(x) for x in pays), len(plan), stateless, res)}
        return c

    def _build_fl(self, desc):
        """a session with injected failing calls and retries: every SUCCESSFUL message must still be the specification's
        (the model ignores the failed calls)"""
        _, name, seed = desc
        rnd = random.Random(seed)
        parsed = parse_name_simple(name)
        c = Case("fl-%s-%d" % (name, seed), desc)
        res = (rnd.choice(["D", "D", "R", "DR"]), rnd.choice(["D", "D", "R", "DR"]))
        h = faults.History(c, name, seed, "script", res=res, rec=("r", "r"), twin=False, transport=rnd.choice(["tr", "sl", "mixA", "mixB"]))
        maxp = sessions.max_payloads(parsed)
        paylens = [min(m, rnd.choice([0, 1, 5, 16, 33, 100])) for m in maxp]
        plan, ma, mb = faults.random_fault_plan(parsed, paylens, rnd, nslots=rnd.choice([1, 2, 3]), consecutive=rnd.choice([1, 2]))
        h.setup(missing_a=ma, missing_b=mb, prologue=sessions.prologue_choice(rnd, 32, 64))
        h.handshake(paylens, plan)
        h.convert()
        h.transport_phase(rnd, nmsgs=3, fault_rate=0.3, rekeys=True)
        h.done()
        c.info = {"name": name, "mode": "fl", "shape": (tuple(paylens), len(plan), h.transport)}
        return c

    def _build_mp(self, desc):
        """the model plays the peer: its messages are pre-computed and fed literally"""
        _, name, seed, role = desc
        parsed = parse_name_simple(name)
        rnd = random.Random(seed)
        keys = sessions.Keys(parsed, seed)
        pays, prologue, plan = self._inputs(parsed, rnd)
        pays = [min(p, 2000) for p in pays]
        snow_i = role == "i"
        e_snow = sessions.valid_priv(parsed.dh, "es%d" % seed)
        e_peer = sessions.valid_priv(parsed.dh, "ep%d" % seed)
        kw_s = sessions.party_kwargs(parsed, keys, snow_i)
        kw_p = sessions.party_kwargs(parsed, keys, not snow_i)
        try:
            twin = model.HandshakeState(name, snow_i, s=kw_s.get("s"), rs=kw_s.get("rs"), psks=kw_s["psks"], prologue=prologue or b"", parsed=parsed)
            peer = model.HandshakeState(name, not snow_i, s=kw_p.get("s"), rs=kw_p.get("rs"), psks=kw_p["psks"], prologue=prologue or b"", parsed=parsed)
        except model.Reject:
            return None
        c = Case("mp-%s-%d-%s" % (name, seed, role), desc)
        c.party("S", role, name, res=rnd.choice(["D", "R", "DR"]), rng="lit:" + e_snow.hex(), prologue=prologue, **kw_s)
        c.op("build", "S")
        for i in range(parsed.nmsgs):
            pay = gen_bytes("mp%d.%d" % (seed, i), pays[i])
            snow_writes = (i % 2 == 0) == snow_i
            if snow_writes:
                m = twin.write_message(pay, e_snow)
                peer.read_message(m)
                c.op("hs_write", "S", pay="gen:%d:mp%d.%d" % (pays[i], seed, i), buf=sessions.BIGBUF, out="m%d" % i)
            else:
                m = peer.write_message(pay, e_peer)
                twin.read_message(m)
                c.op("hs_read", "S", msg="lit:" + hx(m), buf=sessions.BIGBUF)
        stateless = rnd.random() < 0.3
        c.op("to_stateless" if stateless else "to_transport", "S")
        tp, tt = model.Transport(peer), model.Transport(twin)
        cnt = [0, 0]
        for k, (d, ln) in enumerate(plan):
            ln = min(ln, 2000)
            pay = gen_bytes("mt%d.%d" % (seed, k), ln)
            snow_writes = (d == 0) == snow_i
            n = cnt[d]
            cnt[d] += 1
            if snow_writes:
                if stateless:
                    c.op("st_write", "S", n=n, pay="gen:%d:mt%d.%d" % (ln, seed, k), buf=sessions.BIGBUF)
                else:
                    c.op("t_write", "S", pay="gen:%d:mt%d.%d" % (ln, seed, k), buf=sessions.BIGBUF)
            else:
                cs = tp.tx
                m = prims.aead_encrypt(cs.cipher, cs.k, n, b"", pay)
                if stateless:
                    c.op("st_read", "S", n=n, msg="lit:" + hx(m), buf=sessions.BIGBUF)
                else:
                    c.op("t_read", "S", msg="lit:" + hx(m), buf=sessions.BIGBUF)
        c.info = {"name": name, "mode": "mp" + role, "shape": (tuple(_cls(x) for x in pays), len(plan), stateless)}
        return c

    _vecs = None

    def _build_vec(self, desc):
        if CheckC01._vecs is None:
            CheckC01._vecs = json.load(open(VEC_PATH))["vectors"]
        v = CheckC01._vecs[desc[1]]
        name = v["protocol_name"]
        try:
            parsed = parse_name_simple(name)
        except ValueError:
            return None
        if parsed.dh != "25519" or parsed.cipher not in CIPHERS or parsed.hash not in HASHES:
            return None
        H = bytes.fromhex
        g = lambda k: H(v[k]) if k in v else None
        c = Case("vec-%d-%s" % (desc[1], name), desc)
        ipsk = {n: H(x) for n, x in zip(parsed.psks, v.get("init_psks", []))}
        rpsk = {n: H(x) for n, x in zip(parsed.psks, v.get("resp_psks", []))}
        c.party("A", "i", name, res="D", rng="lit:", s=g("init_static"), rs=g("init_remote_static"), e=g("init_ephemeral"), prologue=g("init_prologue"), psks=ipsk)
        c.party("B", "r", name, res="D", rng="lit:", s=g("resp_static"), rs=g("resp_remote_static"), e=g("resp_ephemeral"), prologue=g("resp_prologue"), psks=rpsk)
        c.op("build", "A")
        c.op("build", "B")
        msgs = v["messages"]
        for i, m in enumerate(msgs):
            if i < parsed.nmsgs:
                w, r = ("A", "B") if i % 2 == 0 else ("B", "A")
                lab = c.op("hs_write", w, pay=H(m["payload"]), buf=sessions.BIGBUF, out="m%d" % i)
                c.meta[lab] = m["ciphertext"]
                lab = c.op("hs_read", r, msg="$m%d" % i, buf=sessions.BIGBUF)
                c.meta[lab] = m["payload"]
                if i == parsed.nmsgs - 1:
                    c.op("to_transport", "A")
                    c.op("to_transport", "B")
            else:
                w, r = ("A", "B") if (parsed.oneway or i % 2 == 0) else ("B", "A")
                lab = c.op("t_write", w, pay=H(m["payload"]), buf=sessions.BIGBUF, out="m%d" % i)
                c.meta[lab] = m["ciphertext"]
                lab = c.op("t_read", r, msg="$m%d" % i, buf=sessions.BIGBUF)
                c.meta[lab] = m["payload"]
        c.info = {"name": name, "mode": "vec", "shape": (desc[1],), "hh": v.get("handshake_hash")}
        return c

    # ------------------------------------------------------------ judge

    def judge(self, case, events, death):
        r = core.CaseResult()
        name = case.info["name"]
        variant = name.split("_")[1]
        if death is not None:
            r.foreign_dev("C10", "driver died in case")
            return r
        sh = Shadow(case)
        views = sh.run(events)
        unjudged = 0
        for v in views:
            e = v.ev
            if e.op in ("hs_write", "hs_read", "t_write", "t_read", "st_write", "st_read"):
                if v.kind == "must_ok" and not v.devs:
                    r.stats["calls_judged"] += 1
                    if e.op.endswith("write"):
                        r.stats["bytes_compared"] += e.oklen() or 0
                        r.stats["hs_msgs_compared" if e.op == "hs_write" else "tr_msgs_compared"] += 1
                    else:
                        r.stats["payloads_compared"] += 1
                    if e.op.startswith("hs_"):
                        r.stats["hashes_compared"] += 1
                elif v.kind in ("nojudge", "unspec"):
                    unjudged += 1
            for d in v.devs:
                if d.aspect == "res" and v.kind == "must_err":
                    # a call that should have failed returned Ok: C14 / C03 / C11 / C09 own that, not wire conformance
                    r.foreign_dev("C14/C03/C11", "%s returned Ok where an error was due" % d.op)
                elif d.aspect in OWN:
                    idx = ""
                    sig = "C01|%s|%s|%s" % (d.aspect, d.op, variant)
                    r.viol(sig, "%s: %s %s on %s: %s" % (name, d.op, d.label, d.party, d.msg))
                else:
                    r.foreign_dev(FOREIGN.get(d.aspect, "?"), "%s at %s" % (d.aspect, d.op))
        # third-party anchors
        if case.info["mode"] == "vec":
            for e in events:
                exp = case.meta.get(int(e.label)) if e.label.isdigit() else None
                if exp is None:
                    continue
                if not e.ok or e.kv.get("out", "-").replace("-", "") != exp:
                    r.viol("C01|vector|%s|%s" % (e.op, variant), "%s: %s %s differs from the cacophony vector" % (name, e.op, e.label))
                else:
                    r.stats["vector_fields_matched"] += 1
            hh = case.info.get("hh")
            if hh:
                fin = [e for e in events if e.op == "hs_read" and e.obs().get("fin") == "1"]
                if fin and fin[-1].obs().get("hh") != hh:
                    r.viol("C01|vector|hh|%s" % variant, "%s: handshake hash differs from the cacophony vector" % name)
                elif fin:
                    r.stats["vector_hashes_matched"] += 1
        r.stats["unspecified"] += sh.unspecified
        if not r.violations and unjudged == 0 and not sh.stopped and r.stats["hs_msgs_compared"] > 0:
            r.nontrivial = True
            r.keys.add((name, case.info["mode"], case.info["shape"]))
        elif unjudged:
            r.stats["cases_with_unjudged_ops"] += 1
        return r


def _cls(n):
    if n == 0:
        return 0
    if n < 16:
        return 1
    if n < 64:
        return 2
    if n < 1024:
        return 3
    if n < 60000:
        return 4
    return 5
