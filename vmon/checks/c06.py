"""C06 no (key, nonce) reuse; ephemerals fresh. Offline trace checker over the recording
resolver's cipher / rng events, merged over both endpoints of a session, across fault histories."""
import random

from noiseref import prims
from noiseref.patterns import CIPHERS, DHS, HASHES, PATTERN_NAMES, all_variants, make_name, parse_name_simple, tokens_for, valid_psk_sets

from .. import core, faults, sessions
from ..script import Case
from ..shadow import decode_out


ZEROS32_DIG = "32:" + __import__("hashlib").sha256(bytes(32)).hexdigest()[:16]


class CheckC06(core.Check):
    id = "C06"
    level = "fault_enumeration"
    cfg = "A"
    rule = (
        "case = one session with injected failing calls and retries (as C07, fresh randomness on every attempt), conversion, "
        "transport traffic with rekeys; the recording resolver logs every AEAD encryption (key, nonce, ad, plaintext digest) and "
        "every RNG draw; oracle = no two enc events of the merged trace share (key, nonce) with different (ad, plaintext) - REKEY counted as the "
        "encryption of 32 zero bytes under the nonce it is observed to consume -, no two different nonces of one key yield the same "
        "keystream (messages 2^32, 2^33, 2^48, 2^63 apart), and every "
        "ephemeral in a successful write is the public key of bytes drawn inside that call; distinct key = (pattern+psk variant, DH, "
        "fault causes); non-trivial = >= 1 failed call followed by a successful retry with cipher events recorded"
    )
    assumptions = [
        "the nonce a REKEY consumed is identified by the wrapper from the key in effect afterwards (a second instance of the same cipher keyed with ENCRYPT(k, n, '', zeros) for n = 2^64-1 and 2^64-2)",
        "keystream = ciphertext XOR plaintext over the first 16 bytes (all three built-in AEADs are stream constructions)",
    ]
    min_required = {"enc_events": 5000, "distinct_key_nonce_pairs": 3000, "ephemerals_checked": 500, "failed_calls_observed": 300}
    cases_per_shard = 250

    def plan(self):
        rnd = random.Random(self.seed * 32452843 + 6)
        descs = []
        if self.tier == "quick":
            for p in PATTERN_NAMES:
                sets = [x for x in valid_psk_sets(p) if x]
                for ps in [()] + rnd.sample(sets, 2):
                    for _ in range(160 if not ps else 100):
                        descs.append((make_name(p, ps, rnd.choice(DHS), rnd.choice(CIPHERS), rnd.choice(HASHES)), rnd.getrandbits(32)))
        else:
            for p, ps in all_variants():
                for ci in ("ChaChaPoly", "AESGCM"):
                    for _ in range(250):
                        descs.append((make_name(p, ps, rnd.choice(DHS), ci, rnd.choice(HASHES)), rnd.getrandbits(32)))
        return descs

    def build(self, desc):
        name, seed = desc
        rnd = random.Random(seed)
        parsed = parse_name_simple(name)
        c = Case("kn-%s-%d" % (name, seed), desc)
        res = (rnd.choice(["D", "D", "R", "DR"]), rnd.choice(["D", "D", "R", "DR"]))
        h = faults.History(c, name, seed, rnd.choice(["script", "script", "os"]), res=res, rec=("cr", "cr"), twin=False, transport=rnd.choice(["tr", "tr", "sl", "mixA", "mixB"]))
        maxp = sessions.max_payloads(parsed)
        paylens = [min(m, rnd.choice([0, 1, 5, 16, 33, 100])) for m in maxp]
        plan, ma, mb = faults.random_fault_plan(parsed, paylens, rnd, nslots=rnd.choice([1, 2, 3]), consecutive=rnd.choice([1, 2, 3]))
        # oversize-payload retries: the failing attempt carries a different (too long) payload
        h.setup(missing_a=ma, missing_b=mb)
        h.handshake(paylens, plan)
        h.convert()
        h.transport_phase(rnd, nmsgs=4, fault_rate=0.3, rekeys=True, manual=True, stray_setrx=True)
        if rnd.random() < 0.35:
            h.far_nonce_episode(rnd)
        if rnd.random() < 0.3:
            h.exhaustion_episode(rnd)
        h.done()
        c.info = {"name": name}
        return c

    def judge(self, case, events, death):
        r = core.CaseResult()
        name = case.info["name"]
        parsed = parse_name_simple(name)
        variant = parsed.name.split("_")[1]
        if death is not None:
            r.foreign_dev("C10", "driver died")
            return r
        fault_labels = {str(l): (op, cause) for l, _p, op, cause in case.meta["faults"]}
        seen = {}  # (key, nonce) -> (ad, pt digest, where)
        kstream = {}  # (key, first 16 keystream bytes) -> nonce
        fired = []
        retried_ok = False
        toks = tokens_for(parsed.pattern, parsed.psks)
        publen = prims.DH_PUBLEN[parsed.dh]
        nwrites = {"A": 0, "B": 0}
        for e in events:
            if e.panic:
                r.foreign_dev("C10", "panic at %s" % e.op)
                return r
            if e.label in fault_labels and e.err:
                fired.append(fault_labels[e.label])
                r.stats["failed_calls_observed"] += 1
            elif e.label in fault_labels and e.ok:
                r.foreign_dev("C14/C03/C11", "injected fault returned Ok")
                return r
            elif fired and e.ok and e.op in ("hs_write", "hs_read", "t_write", "st_write"):
                retried_ok = True
            drawn = b""
            for kind, sub, kv in e.subs:
                if kind == "r" and sub == "fill":
                    r.stats["rng_draws"] += 1
                    if kv.get("bytes", "-") != "-":
                        drawn += bytes.fromhex(kv["bytes"])
                elif kind == "c" and sub == "enc":
                    r.stats["enc_events"] += 1
                    n = int(kv["n"])
                    k = (kv["key"], n)
                    cur = (kv.get("ad"), kv.get("pt"))
                    if k in seen:
                        if seen[k][:2] != cur:
                            prev = seen[k]
                            ctx = "handshake" if e.op.startswith("hs_") else "transport"
                            r.viol(
                                "C06|reuse|%s|%s|after:%s" % (ctx, e.op, ",".join(sorted(set("%s:%s" % (o, _cc(c)) for o, c in fired))) or "-"),
                                "%s: key %s.. nonce %d encrypted two different inputs: at %s (ad %s.. pt %s) and at %s %s (ad %s.. pt %s); failed calls so far %s"
                                % (name, kv["key"][:16], n, prev[2], str(prev[0])[:16], prev[1], e.op, e.label, str(cur[0])[:16], cur[1], fired),
                            )
                            return r
                        r.stats["identical_repeats"] += 1
                    else:
                        seen[k] = cur + ("%s %s" % (e.op, e.label),)
                    if n == 2**64 - 1 and cur != ("-", ZEROS32_DIG):
                        r.foreign_dev("C09", "reserved nonce used to encrypt")
                    ks = kv.get("ks", "-")
                    if ks != "-":
                        # beneath the trait boundary: the same keystream under two different nonces of one key means the
                        # back end mapped both to one AEAD nonce
                        r.stats["keystream_prefixes_compared"] += 1
                        o = kstream.setdefault((kv["key"], ks), n)
                        if o != n:
                            r.viol(
                                "C06|aead-nonce-collision|%s" % parsed.cipher,
                                "%s: key %s.. produced the same keystream for nonces %d and %d (difference %d): the back end encrypts both under one AEAD nonce" % (name, kv["key"][:16], o, n, abs(n - o)),
                            )
                            return r
                elif kind == "c" and sub == "rekey":
                    r.stats["rekey_events"] += 1
                    used = kv.get("used", "unchecked")
                    if used == "unknown":
                        r.foreign_dev("C15/C18", "the key in effect after REKEY is not ENCRYPT(k, 2^64-1, '', zeros)")
                    elif used.isdigit() and kv.get("old", "unset") != "unset":
                        # REKEY is an AEAD encryption too: of 32 zero bytes, under the old key and the nonce it really consumed
                        r.stats["rekey_nonces_identified"] += 1
                        k = (kv["old"], int(used))
                        cur = ("-", ZEROS32_DIG)  # the same representation an ordinary enc event of that input has
                        if k in seen and seen[k][:2] != cur:
                            prev = seen[k]
                            r.viol(
                                "C06|reuse|rekey|%s" % ("reserved" if int(used) == 2**64 - 1 else "message-nonce"),
                                "%s: REKEY at %s %s encrypted 32 zero bytes under key %s.. and nonce %s, which the same key also used for a message at %s (pt %s)" % (name, e.op, e.label, kv["old"][:16], used, prev[2], prev[1]),
                            )
                            return r
                        seen.setdefault(k, cur + ("%s %s (REKEY)" % (e.op, e.label),))
            if e.op == "hs_write" and e.ok and e.party in nwrites:
                # which message index did this party just write? its j-th write is message 2j (+1 for the responder)
                idx = 2 * nwrites[e.party] + (0 if e.party == "A" else 1)
                nwrites[e.party] += 1
                if idx < len(toks) and "e" in toks[idx]:
                    b, ln, _ = decode_out(e.kv.get("out"))
                    if b is None:
                        continue
                    if len(drawn) < 32:
                        r.viol("C06|ephemeral-not-drawn|%s" % variant, "%s: message %d carries an ephemeral key but no randomness was drawn during that write (%d bytes)" % (name, idx, len(drawn)))
                        return r
                    pub = prims.dh_pub(parsed.dh, drawn[-32:]) if len(drawn) >= 32 else None
                    pub0 = prims.dh_pub(parsed.dh, drawn[:32])
                    if b[:publen] not in (pub, pub0):
                        r.viol("C06|ephemeral-not-fresh|%s" % variant, "%s: ephemeral in message %d is not the public key of the bytes drawn during that write" % (name, idx))
                        return r
                    r.stats["ephemerals_checked"] += 1
        r.stats["distinct_key_nonce_pairs"] += len(seen)
        r.sets.setdefault("fault_cause_sets", set()).add(tuple(sorted(set((o, _cc(c)) for o, c in fired))))
        if fired and retried_ok and seen:
            r.nontrivial = True
            r.keys.add((variant, parsed.dh, tuple(sorted(set((o, _cc(c)) for o, c in fired)))))
        return r


def _cc(cause):
    return cause.split("@")[0].rstrip("0123456789")
