"""C20 back-end interchangeability and fallback resolution. Differential: one scripted scenario
(same keys, same scripted ephemerals, same payloads) under all 9 assignments of {default, ring-first,
default-first} to the two endpoints must give identical bytes at every step and complete; plus the
exhaustive truth table of FallbackResolver over stub resolvers whose objects identify themselves."""
import itertools
import random

from noiseref.patterns import all_variants, make_name, parse_name_simple

from .. import core, sessions
from ..script import Case

BIG = sessions.BIGBUF
ASSIGN = [(a, b) for a in ("D", "R", "DR") for b in ("D", "R", "DR")]
# Debug names used by the stubs / spec names used to select the choice
KINDS = {
    "dh": [("25519", "Curve25519"), ("448", "Curve448"), ("P256", "P256")],
    "cipher": [("ChaChaPoly", "ChaChaPoly"), ("AESGCM", "AESGCM"), ("XChaChaPoly", "XChaChaPoly")],
    "hash": [("SHA256", "SHA256"), ("SHA512", "SHA512"), ("BLAKE2s", "Blake2s"), ("BLAKE2b", "Blake2b")],
}
# what the real resolvers provide (documented): default = everything but 448; ring = rng, SHA256/512, ChaChaPoly/AESGCM
REAL = {
    "D": {"rng": True, "dh": {"25519", "P256"}, "cipher": {"ChaChaPoly", "AESGCM", "XChaChaPoly"}, "hash": {"SHA256", "SHA512", "BLAKE2s", "BLAKE2b"}},
    "Ronly": {"rng": True, "dh": set(), "cipher": {"ChaChaPoly", "AESGCM"}, "hash": {"SHA256", "SHA512"}},
}


class CheckC20(core.Check):
    id = "C20"
    level = "exploration"
    cfg = "A"
    rule = (
        "differential cases: one scripted session (keys, ephemerals, prologue, payloads, transport traffic, rekeys, manual epoch keys sharing a prefix) executed under all 9 back-end "
        "assignments; every output and observation of every step must be identical across the 9 and the session must complete in each (so "
        "mixed-back-end pairs interoperate); truth-table cases: FallbackResolver(preferred, fallback) probed for every (primitive kind, "
        "choice) and rng with availability {neither, preferred, fallback, both} on self-identifying stubs, nested fallbacks, sequences of questions to one instance, and the real "
        "resolvers' documented capability sets; distinct key = (protocol name, scenario shape) resp. (kind, choice, availability); non-trivial = "
        "all 9 runs compared / probe judged"
    )
    assumptions = ["identical scripted RNG on every assignment makes byte equality the expected outcome; the truth table is the definition of 'fallback'"]
    min_required = {"scenarios_compared": 150, "steps_compared_across_backends": 5000, "probes_judged": 150}
    cases_per_shard = 30

    def plan(self):
        rnd = random.Random(self.seed * 295075147 + 20)
        descs = [("tt", 0)]
        variants = list(all_variants())
        n = 1500 if self.tier == "quick" else 40000
        for _ in range(n):
            p, ps = rnd.choice(variants)
            both = rnd.random() < 0.7
            dh = "25519" if both else rnd.choice(["25519", "P256"])
            ci = rnd.choice(["ChaChaPoly", "AESGCM"]) if both else rnd.choice(["ChaChaPoly", "AESGCM", "XChaChaPoly"])
            ha = rnd.choice(["SHA256", "SHA512"]) if both else rnd.choice(["SHA256", "SHA512", "BLAKE2s", "BLAKE2b"])
            descs.append(("df", make_name(p, ps, dh, ci, ha), rnd.getrandbits(32)))
        return descs

    def build(self, desc):
        if desc[0] == "tt":
            return self._truth_table()
        _, name, seed = desc
        parsed = parse_name_simple(name)
        rnd = random.Random(seed)
        keys = sessions.Keys(parsed, seed)
        c = Case("df-%s-%d" % (name, seed), desc)
        maxp = sessions.max_payloads(parsed)
        pays = [sessions.payload_len_choice(rnd, m, 0.05) for m in maxp]
        prologue = sessions.prologue_choice(rnd, 32, 64)
        plan = [(0 if parsed.oneway else rnd.randrange(2), rnd.choice([0, 1, 16, 100, 5000, rnd.randrange(0, 200), rnd.randrange(0, 200)])) for _ in range(rnd.randrange(1, 8))]
        # payload buffers: large, exact, a few spare bytes (the back ends take different code paths)
        rbufs = [rnd.choice([BIG, ln, ln + rnd.randrange(1, 16), ln + 16]) for _d, ln in plan]
        stateless = rnd.random() < 0.3
        manual_eps = rnd.choice([(), (), (1, 2), (1, 2, 2, 3), (7, 7)])
        runs = []
        for j, (ra, rb) in enumerate(ASSIGN):
            ids = ("A%d" % j, "B%d" % j)
            first = c.nops
            sessions.add_pair(c, parsed, keys, res=(ra, rb), rng=("script:%d" % seed, "script:%d" % (seed + 1)), prologue=(prologue, prologue), rec=("-", "-"), ids=ids)
            sessions.add_handshake(c, parsed, ["gen:%d:hp%d.%d" % (ln, seed, i) for i, ln in enumerate(pays)], ids=ids, prefix="m%d_" % j)
            sessions.add_convert(c, ids=ids, stateless=stateless)
            sessions.add_transport(c, parsed, [(d, "gen:%d:tp%d.%d" % (ln, seed, i)) for i, (d, ln) in enumerate(plan)], ids=ids, stateless=stateless, prefix="t%d_" % j, rbufs=rbufs)
            if not stateless:
                c.op("rekey_out", ids[0])
                c.op("rekey_in", ids[1])
                c.op("t_write", ids[0], pay="gen:9:rk", buf=BIG, out="rk%d" % j)
                c.op("t_read", ids[1], msg="$rk%d" % j, buf=BIG)
            # epoch keys installed by hand: label || counter, so consecutive keys share a long prefix; then the same key again
            for ep in manual_eps:
                mk = (b"verif epoch key, direction i" + ep.to_bytes(4, "big")).hex()
                for pid in ids:
                    c.op("rekey_manual", pid, i=mk, r="-")
                kw = {"n": 40 + ep} if stateless else {}
                c.op("st_write" if stateless else "t_write", ids[0], pay="gen:20:ep%d" % ep, buf=BIG, out="ep%d_%d" % (j, ep), **kw)
                c.op("st_read" if stateless else "t_read", ids[1], msg="$ep%d_%d" % (j, ep), buf=BIG, **kw)
            runs.append((first, c.nops))
        c.meta["runs"] = runs
        c.info = {"kind": "df", "name": name, "key": (name, len(plan), stateless)}
        return c

    def _truth_table(self):
        c = Case("truth-table", ("tt", 0))
        exp = {}

        def stub(tag, have):
            return "stub%s:%s" % (tag, ",".join(have) if have else "none")

        for kind, choices in KINDS.items():
            for spec, dbg in choices:
                item = "%s.%s" % (kind, dbg)
                for inA, inB in itertools.product((False, True), repeat=2):
                    # distractors: the other choices of the same kind are present on the "wrong" side
                    others = ["%s.%s" % (kind, d) for s, d in choices if d != dbg]
                    a = ([item] if inA else []) + others[:1]
                    b = ([item] if inB else []) + others[1:]
                    lab = c.op("resolve_probe", r="fb(%s|%s)" % (stub("A", a), stub("B", b)), kind=kind, choice=spec)
                    exp[lab] = ("some:stubA" if inA else ("some:stubB" if inB else "none"), (kind, spec, inA, inB))
                    # nested: fb(A | fb(B | C))
                    for inC in (False, True):
                        lab = c.op("resolve_probe", r="fb(%s|fb(%s|%s))" % (stub("A", a), stub("B", b), stub("C", [item] if inC else [])), kind=kind, choice=spec)
                        exp[lab] = ("some:stubA" if inA else ("some:stubB" if inB else ("some:stubC" if inC else "none")), (kind, spec, inA, inB, inC))
        for inA, inB in itertools.product((False, True), repeat=2):
            lab = c.op("resolve_probe", r="fb(%s|%s)" % (stub("A", ["rng"] if inA else []), stub("B", ["rng"] if inB else [])), kind="rng", choice="-")
            exp[lab] = ("some:a0a0a0a0" if inA else ("some:b0b0b0b0" if inB else "none"), ("rng", "-", inA, inB))
        # several questions to ONE FallbackResolver instance: what the preferred member lacked for one choice must not
        # colour the answer for another choice of the same kind (or for another kind) asked afterwards
        seqs = {}
        for kind, choices in KINDS.items():
            for (sx, dx), (sy, dy) in itertools.permutations(choices, 2):
                ix, iy = "%s.%s" % (kind, dx), "%s.%s" % (kind, dy)
                for b_has_x in (False, True):
                    rspec = "fb(%s|%s)" % (stub("A", [iy, "rng"]), stub("B", ([ix] if b_has_x else []) + [iy]))
                    lab = c.op("resolve_probe", r=rspec, seq="%s:%s;%s:%s;rng:-;%s:%s" % (kind, sx, kind, sy, kind, sx))
                    x = "stubB" if b_has_x else "none"
                    seqs[lab] = ([x, "stubA", "a0a0a0a0", x], (kind, sx, sy, b_has_x))
        c.meta["seqs"] = seqs
        # real resolvers: Some/None according to their documented capability sets, alone and combined
        for kind, choices in KINDS.items():
            for spec, dbg in choices:
                for rspec, caps in (("D", [REAL["D"]]), ("Ronly", [REAL["Ronly"]]), ("fb(Ronly|D)", [REAL["Ronly"], REAL["D"]]), ("fb(D|Ronly)", [REAL["D"], REAL["Ronly"]])):
                    lab = c.op("resolve_probe", r=rspec, kind=kind, choice=spec)
                    have = any(spec in cp[kind] for cp in caps)
                    exp[lab] = ("some:" + spec if have else "none", (kind, spec, rspec))
        c.meta["exp"] = exp
        c.info = {"kind": "tt"}
        return c

    def judge(self, case, events, death):
        r = core.CaseResult()
        if death is not None:
            r.foreign_dev("C10", "driver died")
            return r
        if case.info["kind"] == "tt":
            by = {e.label: e for e in events}
            for lab, (want, key) in case.meta["exp"].items():
                e = by.get(str(lab))
                if e is None or e.skipped or e.panic:
                    r.inconclusive.append("probe %s not executed: %s" % (key, e.res if e else "missing"))
                    continue
                got = "none" if e.res == "none" else "some:" + e.kv.get("id", "?")
                r.stats["probes_judged"] += 1
                if got != want:
                    r.viol("C20|fallback|%s|%s->%s" % (key[0], want.split(":")[0], got.split(":")[0] if want.split(":")[0] != got.split(":")[0] else "wrong-member"), "FallbackResolver probe %s resolved to %s, expected %s" % (key, got, want))
                    continue
                r.keys.add(key)
                r.nontrivial = True
            for lab, (want, key) in case.meta.get("seqs", {}).items():
                e = by.get(str(lab))
                if e is None or e.skipped or e.panic:
                    r.inconclusive.append("probe sequence %s not executed: %s" % (key, e.res if e else "missing"))
                    continue
                got = e.kv.get("ids", "").split(",")
                r.stats["probes_judged"] += 1
                r.stats["probe_sequences_judged"] += 1
                if got != want:
                    r.viol("C20|fallback-sequence|%s" % key[0], "one FallbackResolver instance asked for %s %s, %s, rng, %s again (fallback member has %s: %s) answered %s, expected %s" % (key[0], key[1], key[2], key[1], key[1], key[3], got, want))
                    continue
                r.keys.add(("seq",) + key)
            return r
        name = case.info["name"]
        runs = case.meta["runs"]
        by = {e.label: e for e in events}
        ref = None
        for j, (a, b) in enumerate(runs):
            seq = []
            for lab in range(a, b):
                e = by.get(str(lab))
                if e is None:
                    seq.append(("missing",))
                    continue
                if e.panic:
                    if j > 0 and ref is not None:
                        # the default/default run of the same scenario completed: a back end that panics instead is not interchangeable
                        r.viol("C20|panic|%s-%s|%s" % (ASSIGN[j] + (e.op,)), "%s: %s panics under back ends %s/%s (%s) while default/default completes" % (name, e.op, ASSIGN[j][0], ASSIGN[j][1], e.res[:100]))
                    else:
                        r.foreign_dev("C10", "panic in %s" % e.op)
                    return r
                o = e.obs()
                seq.append((e.op, e.res, e.kv.get("out"), o.get("hh"), o.get("turn"), o.get("fin"), o.get("sn"), o.get("rn"), o.get("rs")))
            bad = [s for s in seq if not (s[0] != "missing" and s[1].startswith("ok"))]
            if bad:
                if j == 0:
                    r.foreign_dev("C02", "reference run (default/default) did not complete")
                    return r
                r.viol("C20|incomplete|%s-%s" % ASSIGN[j], "%s: session with back ends %s/%s fails (%s) while default/default completes" % (name, ASSIGN[j][0], ASSIGN[j][1], bad[0][:2]))
                return r
            if ref is None:
                ref = seq
                continue
            for k, (x, y) in enumerate(zip(ref, seq)):
                if x != y:
                    what = [n for n, u, v in zip(("op", "result", "bytes", "hash", "turn", "fin", "sn", "rn", "rs"), x, y) if u != v]
                    r.viol("C20|differs|%s-%s|%s|%s" % (ASSIGN[j] + (x[0], what[0])), "%s: step %d (%s) under back ends %s/%s differs from default/default in %s" % (name, k, x[0], ASSIGN[j][0], ASSIGN[j][1], what))
                    return r
            r.stats["steps_compared_across_backends"] += len(seq)
        r.stats["scenarios_compared"] += 1
        r.nontrivial = True
        r.keys.add(case.info["key"])
        return r
