"""C05 in-order exactly-once stateful delivery. Oracle: a sequential model with one variable rn.
Exhaustive delivery schedules over a small alphabet up to a length bound, random longer ones."""
import itertools
import random

from noiseref.patterns import CIPHERS, DHS, HASHES, parse_name_simple

from .. import core, sessions
from ..script import Case, gen_bytes
from ..shadow import decode_out

BIG = sessions.BIGBUF
MAXN = 2**64 - 1


def alphabet(n, setvals):
    a = []
    for j in range(n):
        a += [("d", j), ("small", j), ("flip", j)]
    a += [("garbage", 0), ("oversize", 0), ("short", 0)]
    a += [("set", v) for v in setvals]
    return a


class CheckC05(core.Check):
    id = "C05"
    level = "fault_enumeration"
    cfg = "A"
    rule = (
        "case = one stateful session, sender writes N uniquely tagged messages, the receiver sees a delivery schedule over {deliver j, "
        "deliver j into a too-small buffer, deliver j with a flipped bit, garbage, oversize, too short, set_receiving_nonce(v)}, with refused writes "
        "(over-long payload, too small a buffer) between the sender's genuine writes - message j is the j-th successful write; oracle: "
        "accept iff j == rn (then rn += 1), everything else rejected with rn unchanged, receiving_nonce() == rn after every op, accepted "
        "payload == written payload; exhaustive for N=3 up to the length bound, random for N<=8, length<=40; distinct key = (cipher, "
        "backend, direction, schedule); non-trivial = schedule contains at least one rejection and one acceptance"
    )
    assumptions = ["a message's number is the sender's counter when it was written (unique payload tags make the history unambiguous)"]
    min_required = {"deliveries_judged": 20000, "rejections_observed": 5000, "acceptances_observed": 3000}
    cases_per_shard = 1200
    eval_stat = "deliveries_judged"

    def plan(self):
        rnd = random.Random(self.seed * 141650963 + 5)
        descs = []
        quick = self.tier == "quick"
        L = 4 if quick else 5
        configs = [("ChaChaPoly", "D")] if quick else [("ChaChaPoly", "D"), ("AESGCM", "R")]
        alpha_n = len(alphabet(3, [0, 1, 2, 3, MAXN]))
        for ci, be in configs:
            for d in (0, 1):
                for ln in range(1, L + 1):
                    for seq in itertools.product(range(alpha_n), repeat=ln):
                        descs.append((ci, be, d, "x:" + ",".join(map(str, seq))))
        self.exhaustive = True
        if not quick:
            # every cipher x back end exhaustively to length 4
            for ci in CIPHERS:
                for be in ("D", "R", "DR"):
                    if (ci, be) in configs:
                        continue
                    for d in (0, 1):
                        for ln in range(1, 5):
                            for seq in itertools.product(range(alpha_n), repeat=ln):
                                descs.append((ci, be, d, "x:" + ",".join(map(str, seq))))
        for _ in range(20000 if quick else 400000):
            descs.append((rnd.choice(CIPHERS), rnd.choice(["D", "R", "DR", "D+df", "R+df"]), rnd.randrange(2), "r:%d" % rnd.getrandbits(32)))
        return descs

    def build(self, desc):
        ci, be, d, spec = desc
        name = "Noise_NN_25519_%s_BLAKE2s" % ci
        parsed = parse_name_simple(name)
        c = Case("dl-%s-%s-%d-%s" % (ci, be, d, spec.replace(",", ".")), desc)
        keys = sessions.Keys(parsed, 1)
        sessions.add_pair(c, parsed, keys, res=(be, be), rng=("script:1", "script:2"), rec=("-", "-"))
        sessions.add_handshake(c, parsed, ["-", "-"], flags=("q",))
        sessions.add_convert(c)
        w, r = ("A", "B") if d == 0 else ("B", "A")
        base = 0
        if spec.startswith("x:"):
            n = 3
            al = alphabet(3, [0, 1, 2, 3, MAXN])
            sched = [al[int(i)] for i in spec[2:].split(",")]
        else:
            rnd = random.Random(int(spec[2:]))
            n = rnd.randrange(2, 9)
            # a quarter of the sessions live at the top of the counter range (sender placed there through the hook):
            # message j then carries number base + j, the last one at most 2^64-2
            if rnd.random() < 0.25:
                base = MAXN - n - rnd.choice([0, 0, 1, 5])
            al = alphabet(n, [base + i for i in range(n + 1)] + [0, 2**32, 2**64 - 2, MAXN])
            if be.endswith("+df"):
                al += [("decfault", 0)] * 3  # the back end's decrypt refuses these itself, with Error::Input
            ln = rnd.randrange(4, 41)
            # bias towards in-order delivery so that deep counters are reached
            sched = []
            nxt = 0
            for _ in range(ln):
                if rnd.random() < 0.4 and 0 <= nxt < n:
                    sched.append(("d", nxt))
                    nxt += 1
                else:
                    s = rnd.choice(al)
                    sched.append(s)
                    if s[0] == "set":
                        nxt = s[1] - base
        sizes = [12] * n
        if not spec.startswith("x:"):
            sizes = [rnd.choice([12, 12, 12, 0, 1, 65519, 4096]) for _ in range(n)]
        # refused writes between the genuine ones: they are not messages, so message j is still the j-th *successful* write
        refused = []
        if base:
            c.op("set_tx_nonce", w, n=base)
            c.op("set_rx_nonce", r, n=base)
        for j in range(n):
            if spec.startswith("x:"):
                rk = {1: "long", 2: "smallbuf"}.get(j)
            else:
                rk = rnd.choice(["long", "long2", "smallbuf"]) if rnd.random() < 0.3 else None
            if rk == "long":
                refused.append(c.op("t_write", w, pay="zero:65520", buf=BIG, flags=("q",)))
            elif rk == "long2":
                refused.append(c.op("t_write", w, pay="zero:%d" % rnd.choice([65521, 65535, 65536, 69984]), buf=BIG, flags=("q",)))
            elif rk == "smallbuf":
                refused.append(c.op("t_write", w, pay="gen:%d:rf%d" % (sizes[j], j), buf=sizes[j] + rnd.choice([0, 15]) if not spec.startswith("x:") else sizes[j] + 15, flags=("q",)))
            c.op("t_write", w, pay="gen:%d:id%d" % (sizes[j], j), buf=BIG, out="g%d" % j, flags=("q",))
        c.meta["refused"] = refused
        steps = []
        # an empty payload fits any buffer: "too small a buffer" does not exist for it
        sched = [("d", v) if kind == "small" and sizes[v] == 0 else (kind, v) for kind, v in sched]
        for kind, v in sched:
            if kind == "d":
                lab = c.op("t_read", r, msg="$g%d" % v, buf=BIG)
            elif kind == "small":
                lab = c.op("t_read", r, msg="$g%d" % v, buf=max(0, sizes[v] - 1))
            elif kind == "flip":
                lab = c.op("t_read", r, msg="$g%d~flip:%d" % (v, (v * 37) % ((sizes[v] + 16) * 8)), buf=BIG)
            elif kind == "garbage":
                lab = c.op("t_read", r, msg="gen:28:gb", buf=BIG)
            elif kind == "oversize":
                lab = c.op("t_read", r, msg="$g0~ext:zero:%d" % (65536 - 28), buf=BIG)
            elif kind == "short":
                lab = c.op("t_read", r, msg="$g0~trunc:15", buf=BIG)
            elif kind == "decfault":
                lab = c.op("t_read", r, msg="lit:decfa0177666" + "%080x" % rnd.getrandbits(320), buf=BIG)
            else:
                lab = c.op("set_rx_nonce", r, n=v)
            steps.append((lab, kind, v))
        c.meta["steps"] = steps
        c.info = {"key": (ci, be, d, spec), "n": n, "sizes": sizes, "base": base}
        return c

    def judge(self, case, events, death):
        r = core.CaseResult()
        if death is not None:
            r.foreign_dev("C10", "driver died")
            return r
        by = {e.label: e for e in events}
        base = case.info.get("base", 0)
        rn = base
        acc = rej = 0
        if base:
            r.stats["sessions_at_top_of_counter_range"] += 1
        ci, be, d, spec = case.info["key"]
        for lab in case.meta.get("refused", []):
            e = by.get(str(lab))
            if e is None or e.skipped or e.panic or e.ok:
                # an over-long / unbufferable write that is not refused is C14's (or C10's) matter; the numbering of the
                # messages is then no longer the one this case assumes
                r.foreign_dev("C14", "a write that must be refused was not: %s" % (e.res[:80] if e is not None else "missing"))
                return r
            r.stats["refused_writes_interleaved"] += 1
        for lab, kind, v in case.meta["steps"]:
            e = by.get(str(lab))
            if e is None or e.skipped:
                r.foreign_dev("C02", "session did not reach the delivery phase")
                return r
            if e.panic:
                if kind != "set":
                    r.viol("C05|panic|%s" % kind, "%s/%s dir %d: delivery (%s %d) panicked instead of being accepted or rejected: %s" % (ci, be, d, kind, v, e.res[:120]))
                else:
                    r.foreign_dev("C10", "panic in %s" % e.op)
                return r
            if kind == "set":
                rn = v
            else:
                r.stats["deliveries_judged"] += 1
                should = kind == "d" and base + v == rn and rn != MAXN
                if should:
                    if not e.ok:
                        r.viol("C05|next-rejected|%s" % e.errkind(), "%s/%s dir %d: message %d (number %d) is the next expected one (rn=%d) but was rejected with %s; schedule %s" % (ci, be, d, v, base + v, rn, e.res, spec))
                        return r
                    from ..shadow import out_matches

                    if not out_matches(e, gen_bytes("id%d" % v, case.info["sizes"][v]))[0]:
                        r.viol("C05|payload", "%s/%s: accepted message %d returned a payload other than the written one" % (ci, be, v))
                        return r
                    rn += 1
                    acc += 1
                else:
                    if e.ok:
                        r.viol(
                            "C05|accepted|%s|%s" % (kind, "replay" if kind == "d" and base + v < rn else ("future" if kind == "d" else "invalid")),
                            "%s/%s dir %d: delivery (%s %d, number %d) accepted although the next expected message is %d; schedule %s" % (ci, be, d, kind, v, base + v, rn, spec),
                        )
                        return r
                    rej += 1
            if e.obs().get("sn") != "0":
                r.viol("C05|sending-nonce-moved|%s" % kind, "%s/%s dir %d: a delivery (%s %d -> %s) changed the receiver's own sending nonce to %s; schedule %s" % (ci, be, d, kind, v, e.res, e.obs().get("sn"), spec))
                return r
            got = e.obs().get("rn")
            if got != str(rn):
                r.viol(
                    "C05|nonce-moved|%s|%s" % (kind, "ok" if e.ok else "err"),
                    "%s/%s dir %d: receiving_nonce()=%s after (%s %d -> %s), model %d; schedule %s" % (ci, be, d, got, kind, v, e.res, rn, spec),
                )
                return r
        r.stats["acceptances_observed"] += acc
        r.stats["rejections_observed"] += rej
        if acc and rej:
            r.nontrivial = True
        r.keys.add(case.info["key"])
        return r
