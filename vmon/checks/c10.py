"""C10 total API: panic monitor + subprocess watchdog (+ sanitizer builds in thorough).
No model is needed for the verdict; the model's field layout is used to aim buffer and message
lengths at every computed boundary."""
import os
import random

from noiseref import prims
from noiseref.patterns import CIPHERS, DHS, HASHES, PATTERN_NAMES, all_variants, layout, make_name, overhead, parse_name_simple

from .. import core, sessions
from ..script import Case, gen_bytes, hx

def PATTERNS_MSGS(pat):
    from noiseref.patterns import PATTERNS

    return PATTERNS[pat]["msgs"]


BIG_LENS = [65519, 65520, 65534, 65535, 65536, 65537, 65551, 66000, 70000]


def hostile_names(rnd, n):
    base = [make_name(rnd.choice(PATTERN_NAMES), (), rnd.choice(DHS + ("448",)), rnd.choice(CIPHERS), rnd.choice(HASHES)) for _ in range(8)]
    base += ["Noise_XXpsk0+psk3_25519_AESGCM_SHA256", "Noise_XXfallback_25519_AESGCM_SHA256", "Noise_XXfallback+psk0_25519_AESGCM_SHA256", "Noise_NNhfs_25519+Kyber1024_ChaChaPoly_SHA256"]
    out = ["", "_", "____", "Noise", "Noise_", "Noise_XX", "Noise_XX_25519", "Noise_XX_25519_AESGCM", "Noise__25519_AESGCM_SHA256", "Noise_é_25519_AESGCM_SHA256"]
    uni = ["é", "ß", "€", "𝔛", "\u0000", " ", "Ｘ", "✓", "\U0001F600"]
    for pre in ["", "X", "XX", "XXX", "I1K", "X1X1", "N"]:
        for u in uni:
            out.append("Noise_%s%s_25519_AESGCM_SHA256" % (pre, u))
            out.append("Noise_%s%spsk0_25519_AESGCM_SHA256" % (pre, u))
    for k in [0, 1, 9, 10, 99, 255, 256, 1000, 2**32, 2**64, -1]:
        out.append("Noise_XXpsk%s_25519_AESGCM_SHA256" % k)
        out.append("Noise_NNpsk%s+psk%s_25519_AESGCM_SHA256" % (k, k))
    for s in ["psk", "psk+", "+psk0", "psk0+", "psk0++psk1", "psk+1", "psk-1", "psk 1", "psk1 ", "psk٣", "psk0x1", "fallback+fallback", "psk0+fallback", "hfs", "PSK0"]:
        out.append("Noise_XX%s_25519_AESGCM_SHA256" % s)
    out.append("Noise_" + "X" * 5000 + "_25519_AESGCM_SHA256")
    out.append("Noise_XX" + "+psk0" * 3000 + "_25519_AESGCM_SHA256")
    out.append("_".join(["Noise"] * 2000))
    while len(out) < n:
        b = rnd.choice(base)
        k = rnd.randrange(6)
        i = rnd.randrange(len(b) + 1)
        if k == 0 and b:
            b = b[:i] + b[i + 1:]
        elif k == 1:
            b = b[:i] + rnd.choice("_+XNKI01psk9é€\x00 ") + b[i:]
        elif k == 2 and b:
            b = b[:i] + rnd.choice("_+XNKI01psk9éA") + b[i + 1:]
        elif k == 3:
            b = b[:i] + b[i:i + 1] * 2 + b[i + 1:]
        elif k == 4:
            b = b.swapcase() if rnd.random() < 0.2 else b[:i] + b[i:].lower()
        else:
            b = "".join(rnd.choice("Noise_XKNI1psk0+25519AESGCMChaPolySHA256BLAKE2sbé") for _ in range(rnd.randrange(0, 60)))
        out.append(b)
    return out


class CheckC10(core.Check):
    id = "C10"
    level = "exploration"
    cfg = "A"
    rule = (
        "every driver op runs under catch_unwind with a panic hook, the driver under a subprocess watchdog; case = a reachable "
        "session state (fresh honest prefix) followed by a batch of hostile calls whose buffer/message lengths sit on and around "
        "every boundary the model computes (incl. valid names longer than a hash block and than 255 bytes, built in both roles); distinct key = (op, state class, pattern variant or input class, outcome class); "
        "non-trivial = at least one hostile call executed (not skipped)"
    )
    assumptions = ["a panic caught by catch_unwind, a driver death or a reproducible hang is a violation; a watchdog firing only under load is inconclusive"]
    min_required = {"calls": 20000}
    cases_per_shard = 300
    shard_timeout = 900

    def plan(self):
        rnd = random.Random(self.seed * 999331 + 10)
        quick = self.tier == "quick"
        descs = []
        for i in range(20 if quick else 300):
            descs.append(("parse", rnd.getrandbits(32)))
        variants = list(all_variants())
        sample = rnd.sample(variants, 110) if quick else variants
        # always include the shapes with s-under-key, deferred tails, psk at both ends
        for must in [("XX", ()), ("IK", ()), ("X1X1", ()), ("K", ()), ("N", (0,)), ("XX", (0, 3)), ("NX1", ()), ("KK", (2,)), ("IX", (1,))]:
            if must not in sample:
                sample.append(must)
        for p, ps in sample:
            for dh, rep in [(d, r) for d in (DHS if not quick else (rnd.choice(DHS),)) for r in range(1 if quick else 4)]:
                name = make_name(p, ps, dh, rnd.choice(CIPHERS), rnd.choice(HASHES))
                n = len(overhead(p, ps, 32))
                for k in range(n):
                    descs.append(("hsw", name, k, rnd.getrandbits(24)))
                    descs.append(("hsr", name, k, rnd.getrandbits(24)))
                    descs.append(("misc", name, k, rnd.getrandbits(24)))
                descs.append(("misc", name, n, rnd.getrandbits(24)))
                descs.append(("tr", name, 0, rnd.getrandbits(24)))
                descs.append(("tr", name, 1, rnd.getrandbits(24)))
        for dh in DHS:
            for pat in ("XX", "NN", "KK", "NK", "K", "IK", "X1X1", "X1K") if not quick else ("XX", "NN", "KK", "NK", "X1X1"):
                for role in "ir":
                    for what in ("s", "rs", "prologue", "psk", "pskname"):
                        if quick and pat == "X1X1" and what != "pskname":
                            continue  # the four-message patterns matter for the psk positions (psk4 exists only there)
                        descs.append(("build", pat, dh, role, what, rnd.getrandbits(24)))
        return descs

    # ------------------------------------------------------------ builders

    def build(self, desc):
        kind = desc[0]
        return getattr(self, "_b_" + kind)(desc)

    def _b_parse(self, desc):
        rnd = random.Random(desc[1])
        c = Case("parse-%d" % desc[1], desc)
        for nm in hostile_names(rnd, 400):
            c.op("parse", name=hx(nm.encode("utf-8", "surrogatepass")) if nm else "-")
        c.info = {"cls": "parse"}
        return c

    def _b_build(self, desc):
        _, pat, dh, role, what, seed = desc
        rnd = random.Random(seed)
        name = make_name(pat, (0,) if what == "psk" else (), dh, "ChaChaPoly", "SHA256")
        parsed = parse_name_simple(name)
        keys = sessions.Keys(parsed, seed)
        c = Case("build-%s-%s-%s-%s" % (pat, dh, role, what), desc)
        kw = sessions.party_kwargs(parsed, keys, role == "i", "all")
        peer_kw = sessions.party_kwargs(parsed, keys, role != "i", "needed")
        n = 0

        def one(**over):
            nonlocal n
            k = dict(kw)
            k.update(over)
            pid = "P%d" % n
            qid = "Q%d" % n
            n += 1
            c.party(pid, role, name, rng="script:1", rec="-", **k)
            lab = c.op("build", pid)
            sk = k.get("s")
            if dh == "P256" and sk is not None:
                sb = b"" if sk == "-" else sk
                if len(sb) <= 32 and not prims.p256_valid_scalar(sb + b"\x00" * (32 - len(sb))):
                    c.meta[lab] = "p256-invalid-private-scalar"
            # carry on: a peer with honest keys, then let them talk (later panics count too)
            c.party(qid, "r" if role == "i" else "i", name, rng="script:2", rec="-", **peer_kw)
            c.op("build", qid)
            c.op("pingpong", a=pid if role == "i" else qid, b=qid if role == "i" else pid, max=6, plen=3, seed="bp")

        if what == "s":
            for ln in list(range(0, 70)) + [95, 96, 97, 127, 128, 129, 200, 1000]:
                one(s=gen_bytes("ks%d" % ln, ln) if ln else "-")
            one(s=b"\x00" * 32)
            one(s=b"\xff" * 32)
        elif what == "rs":
            for ln in list(range(0, 70)) + [95, 96, 97, 127, 128, 129, 200, 1000]:
                one(rs=gen_bytes("kr%d" % ln, ln) if ln else "-")
            one(rs=b"\x00" * prims.DH_PUBLEN[dh])
            one(rs=b"\xff" * prims.DH_PUBLEN[dh])
            one(rs=b"\x04" + b"\x00" * 64)
        elif what == "prologue":
            for ln in [0, 1, 31, 32, 33, 63, 64, 65, 127, 128, 129, 1000, 65535, 65536, 70000]:
                one(prologue="gen:%d:pl" % ln if ln else "-")
        elif what == "pskname":
            # psk modifiers at every position (in range, just out of range, far out of range) and in combinations
            mods = ["psk%d" % i for i in range(0, 13)] + ["psk255", "psk0+psk%d" % (parsed.nmsgs + 1), "psk%d+psk0" % (parsed.nmsgs + 1), "psk1+psk2+psk3+psk4+psk5", "fallback", "psk0+fallback"]
            # numerals with leading zeros are accepted by the parser: they make names of any length (longer than a hash
            # block, longer than 255 bytes), which are then hashed by the builder
            mods += ["psk" + "0" * z + d for z in (3, 20, 26, 27, 28, 29, 30, 33, 60, 100, 218, 219, 220, 1000) for d in ("0", "1")]
            for m in mods:
                nm = "Noise_%s%s_%s_ChaChaPoly_SHA256" % (pat, m, dh)
                pid, qid = "P%d" % n, "Q%d" % n
                n += 1
                pk = {i: gen_bytes("p%d" % i, 32) for i in range(10)}
                kk = dict(kw)
                kk["psks"] = pk
                pq = dict(peer_kw)
                pq["psks"] = pk
                c.party(pid, role, nm, rng="script:1", rec="-", **kk)
                c.op("build", pid)
                c.party(qid, "r" if role == "i" else "i", nm, rng="script:2", rec="-", **pq)
                c.op("build", qid)
                c.op("pingpong", a=pid if role == "i" else qid, b=qid if role == "i" else pid, max=6, plen=3, seed="pn")
                # the same name with no PSK supplied at all: every message up to the one that needs it, then an error
                pid, qid = "P%d" % n, "Q%d" % n
                n += 1
                c.party(pid, role, nm, rng="script:1", rec="-", **dict(kw, psks={}))
                c.op("build", pid)
                c.party(qid, "r" if role == "i" else "i", nm, rng="script:2", rec="-", **dict(peer_kw, psks={}))
                c.op("build", qid)
                c.op("pingpong", a=pid if role == "i" else qid, b=qid if role == "i" else pid, max=6, plen=3, seed="pn")
        else:
            for loc in list(range(0, 20)) + [127, 128, 254, 255]:
                k = dict(kw)
                k["psks"] = {loc: gen_bytes("p", 32)}
                pid = "P%d" % n
                n += 1
                c.party(pid, role, name, rng="script:1", rec="-", **k)
                c.op("build", pid)
                c.op("hs_write", pid, pay="-", buf=1000)
        c.info = {"cls": "build-" + what}
        return c

    def _prefix(self, c, name, seed, k, res=None):
        parsed = parse_name_simple(name)
        keys = sessions.Keys(parsed, seed)
        rnd = random.Random(seed)
        res = res or getattr(self, "_force_res", None) or (("D", "D") if self.cfg in ("D", "M") else (rnd.choice(["D", "R", "DR"]), rnd.choice(["D", "R", "DR"])))
        sessions.add_pair(c, parsed, keys, res=res, rng=("script:%d" % seed, "script:%d" % (seed + 1)), rec=("-", "-"))
        sessions.add_handshake(c, parsed, ["gen:5:p%d" % j for j in range(parsed.nmsgs)], upto=k, flags=("q",))
        return parsed, rnd

    def _b_hsw(self, desc):
        _, name, k, seed = desc
        c = Case("hsw-%s-%d-%d" % (name, k, seed), desc)
        parsed, rnd = self._prefix(c, name, seed, k)
        w, r = ("A", "B") if k % 2 == 0 else ("B", "A")
        publen = prims.DH_PUBLEN[parsed.dh]
        fields, hk, off = layout(parsed.pattern, parsed.psks, publen)[k]
        pl = rnd.choice([0, 1, 16, 17, 40])
        bounds = set([0, off + pl + 16])
        for f in fields:
            bounds |= {f.off, f.off + publen, f.off + f.len}
        lens = set(range(0, 201)) if not getattr(self, "_tiny", False) else set()
        for b in bounds:
            lens |= {max(0, b - 1), b, b + 1, b + 15, b + 16, b + 17}
        # out-of-turn writer first (always fails), then the real writer with ascending buffers
        for L in sorted(rnd.sample(sorted(lens), 12)):
            c.op("hs_write", r, pay="gen:%d:w" % pl, buf=L)
        for L in sorted(lens):
            c.op("hs_write", w, pay="gen:%d:w" % pl, buf=L)
        # after the first success the writer is out of turn; fresh sessions for the large sizes
        c.info = {"cls": "hsw", "variant": name.split("_")[1], "dh": parsed.dh}
        c.meta["more"] = True
        return c

    def _b_hsr(self, desc):
        _, name, k, seed = desc
        c = Case("hsr-%s-%d-%d" % (name, k, seed), desc)
        parsed, rnd = self._prefix(c, name, seed, k)
        w, r = ("A", "B") if k % 2 == 0 else ("B", "A")
        publen = prims.DH_PUBLEN[parsed.dh]
        fields, hk, off = layout(parsed.pattern, parsed.psks, publen)[k]
        pl = rnd.choice([0, 1, 16, 33])
        c.op("hs_write", w, pay="gen:%d:w" % pl, buf=sessions.BIGBUF, out="g", flags=("q",))
        total = off + pl + (16 if hk else 0)
        bounds = {0, total}
        for f in fields:
            bounds |= {f.off, f.off + publen, f.off + f.len}
        cuts = set()
        for b in bounds:
            cuts |= {max(0, b - 1), b, b + 1}
        cuts = sorted(x for x in cuts if x <= total)
        # the writer tries to read its own message; then the reader gets every hostile variant
        c.op("hs_read", w, msg="$g", buf=1000)
        for t in cuts:
            if t < total:
                c.op("hs_read", r, msg="$g~trunc:%d" % t, buf=rnd.choice([0, 16, 1000]))
        for L in ([0, 1, 15, 16, 17, 31, 32, 33, 47, 48, 49, 64, 65, 66, 80, 81, 82, 96, 97, 113, 129, 200] if not getattr(self, "_tiny", False) else [0, 31, 32, 48, 49]):
            c.op("hs_read", r, msg="zero:%d" % L, buf=1000)
            c.op("hs_read", r, msg="gen:%d:g%d" % (L, L), buf=rnd.choice([0, 1000]))
        if getattr(self, "_tiny", False):
            c.op("hs_read", r, msg="zero:65536", buf=100)
        for L in (BIG_LENS if not getattr(self, "_tiny", False) else []):
            c.op("hs_read", r, msg="gen:%d:G" % L, buf=70000)
            c.op("hs_read", r, msg="$g~ext:zero:%d" % (L - total), buf=70000)
        for bit in rnd.sample(range(total * 8), min(16, total * 8)) if total else []:
            c.op("hs_read", r, msg="$g~flip:%d" % bit, buf=1000)
        for b in range(0, pl + 3):
            c.op("hs_read", r, msg="$g", buf=b) if b < pl else None
        c.op("hs_read", r, msg="$g", buf=pl)
        c.op("hs_read", r, msg="$g", buf=1000)
        c.info = {"cls": "hsr", "variant": name.split("_")[1], "dh": parsed.dh}
        return c

    def _b_misc(self, desc):
        _, name, k, seed = desc
        c = Case("misc-%s-%d-%d" % (name, k, seed), desc)
        rnd = random.Random(seed)
        which = rnd.randrange(4)
        parsed, _ = self._prefix(c, name, seed, min(k, len(overhead(*self._pp(name)))))
        if which == 0:
            c.op("keygen", "A", flags=("cmp",))
            c.op("keygen", "B", flags=("cmp",))
            for p in ("A", "B"):
                for loc in [0, 1, 2, 3, 4, 9, 10, 11, 255, 256, 2**31, 2**63]:
                    for ln in [0, 1, 31, 32, 33, 64]:
                        c.op("set_psk", p, loc=loc, key="gen:%d:k" % ln if ln else "-")
            c.op("pingpong", a="A", b="B", max=6, plen=2)
        elif which == 1:
            c.op("to_transport", "A", flags=("tf",) if rnd.random() < 0.5 else ())
            c.op("to_stateless", "B", flags=("tf",) if rnd.random() < 0.5 else ())
            for p in ("A", "B"):
                c.op("t_write", p, pay="00", buf=100)
                c.op("st_write", p, n=0, pay="00", buf=100)
                c.op("obs", p)
        elif which == 2:
            c.op("to_stateless", "A")
            c.op("to_transport", "B")
            for p in ("A", "B"):
                c.op("t_read", p, msg="zero:16", buf=100)
                c.op("st_read", p, n=0, msg="zero:16", buf=100)
                c.op("rekey_out", p)
                c.op("rekey_in", p)
        else:
            for p in ("A", "B"):
                for L in [0, 1, 16, 32, 48, 100, 65535, 65536]:
                    c.op("hs_write", p, pay="gen:%d:z" % L, buf=rnd.choice([0, L, L + 16, L + 200, 70000]))
                    c.op("hs_read", p, msg="gen:%d:z" % L, buf=rnd.choice([0, L, 70000]))
        c.info = {"cls": "misc%d" % which, "variant": name.split("_")[1], "dh": parsed.dh}
        return c

    @staticmethod
    def _pp(name):
        p = parse_name_simple(name)
        return p.pattern, p.psks, 32

    def _b_tr(self, desc):
        _, name, stateless, seed = desc
        c = Case("tr-%s-%d-%d" % (name, stateless, seed), desc)
        parsed = parse_name_simple(name)
        parsed, rnd = self._prefix(c, name, seed, parsed.nmsgs)
        sessions.add_convert(c, stateless=bool(stateless))
        wop, rop = ("st_write", "st_read") if stateless else ("t_write", "t_read")
        nonces = [0, 1, 2**32, 2**63, 2**64 - 2, 2**64 - 1]
        for p, q in (("A", "B"), ("B", "A")):
            for L in (list(range(0, 40)) + [100, 200] if not getattr(self, "_tiny", False) else [0, 15, 16, 17, 33]):
                for pl in (0, 1, 17):
                    kw = {"n": rnd.choice(nonces)} if stateless else {}
                    c.op(wop, p, pay="gen:%d:t" % pl, buf=L, **kw)
            for pl, L in ([(65519, 65535), (65519, 65534), (65520, 65536), (65520, 70000), (65535, 70000), (65536, 70000), (70000, 70016), (70000, 140000)] if not getattr(self, "_tiny", False) else []):
                kw = {"n": rnd.choice(nonces)} if stateless else {}
                c.op(wop, p, pay="gen:%d:t" % pl, buf=L, **kw)
            kw = {"n": 3} if stateless else {}
            c.op(wop, p, pay="gen:20:t", buf=100, out="g" + p, **kw)
            for L in (list(range(0, 40)) + [64, 100, 200] + BIG_LENS if not getattr(self, "_tiny", False) else [0, 15, 16, 17]):
                kw = {"n": rnd.choice(nonces)} if stateless else {}
                c.op(rop, q, msg="gen:%d:x" % L, buf=rnd.choice([0, 1, L, 70000] if not getattr(self, "_tiny", False) else [0, 1, L, 100]), **kw)
                c.op(rop, q, msg="zero:%d" % L, buf=70000 if not getattr(self, "_tiny", False) else 100, **kw)
            for t in (range(0, 37) if not getattr(self, "_tiny", False) else (0, 15, 16, 35)):
                kw = {"n": 3} if stateless else {}
                c.op(rop, q, msg="$g%s~trunc:%d" % (p, t), buf=rnd.choice([0, 4, 20, 100]), **kw)
            for b in (range(0, 22) if not getattr(self, "_tiny", False) else (0, 19, 20)):
                kw = {"n": 3} if stateless else {}
                c.op(rop, q, msg="$g" + p, buf=b, **kw)
            if not stateless:
                for n in nonces:
                    c.op("set_rx_nonce", q, n=n)
                    c.op("set_tx_nonce", p, n=n)
                    c.op(wop, p, pay="aa", buf=100, out="h")
                    c.op(rop, q, msg="$h", buf=100)
            c.op("rekey_out", p)
            c.op("rekey_in", q)
            c.op("rekey_manual", p, i=gen_bytes("rk", 32), r="-")
            c.op("rekey_manual", q, i="-", r=gen_bytes("rk", 32), flags=("sep",))
        c.info = {"cls": "tr%d" % stateless, "variant": name.split("_")[1], "dh": parsed.dh}
        return c

    # ------------------------------------------------------------ hfs build (cfg B, thorough)

    def extra_cfg_plans(self):
        if self.tier != "thorough":
            return []
        rnd = random.Random(self.seed * 17 + 3)
        descs = []
        for pat in ("NN", "XX", "IK", "NK", "X1X1", "KK", "NX", "IX"):
            for mods in ("hfs", "psk0+hfs", "hfs+psk2"):
                name = "Noise_%s%s_%s+Kyber1024_%s_%s" % (pat, mods, rnd.choice(DHS), rnd.choice(CIPHERS), rnd.choice(HASHES))
                n = len(PATTERNS_MSGS(pat))
                if "psk2" in mods and n < 2:
                    continue
                for k in range(n):
                    descs.append(("hfsw", name, k, rnd.getrandbits(24)))
                    descs.append(("hfsr", name, k, rnd.getrandbits(24)))
        descs.append(("parse", rnd.getrandbits(32)))
        # default-features build (MAXDHLEN = 56, no P-256 / XChaChaPoly rows): builder key-length sweeps and parsing
        ddescs = [("parse", rnd.getrandbits(32)) for _ in range(5)]
        for pat in ("XX", "NN", "KK", "NK", "K", "IK"):
            for role in "ir":
                for what in ("s", "rs", "prologue", "psk", "pskname"):
                    ddescs.append(("build", pat, "25519", role, what, rnd.getrandbits(24)))
        for p, ps in rnd.sample(list(all_variants()), 40):
            name = make_name(p, ps, "25519", rnd.choice(["ChaChaPoly", "AESGCM"]), rnd.choice(HASHES))
            n = len(overhead(p, ps, 32))
            for k in range(n):
                ddescs.append(("hsw", name, k, rnd.getrandbits(24)))
                ddescs.append(("hsr", name, k, rnd.getrandbits(24)))
        return [("B", descs), ("D", ddescs)]

    def _hfs_prefix(self, c, name, seed, k):
        base = name.replace("+Kyber1024", "")
        f = base.split("_")
        pat = "".join(ch for ch in f[1].split("hfs")[0].split("psk")[0] if ch.isupper() or ch.isdigit())
        mods = [m for m in f[1][len(pat):].split("+") if m.startswith("psk")]
        parsed = parse_name_simple("_".join([f[0], pat + "+".join(mods)] + f[2:]))
        keys = sessions.Keys(parsed, seed)
        for pid, ini in (("A", True), ("B", False)):
            c.party(pid, "i" if ini else "r", name, res="D", rng="os", rec="-", **sessions.party_kwargs(parsed, keys, ini, "all"))
        c.op("build", "A")
        c.op("build", "B")
        for i in range(k):
            w, r = ("A", "B") if i % 2 == 0 else ("B", "A")
            c.op("hs_write", w, pay="gen:3:p%d" % i, buf=sessions.BIGBUF, out="m%d" % i, flags=("q",))
            c.op("hs_read", r, msg="$m%d" % i, buf=sessions.BIGBUF, flags=("q",))
        return parsed

    @staticmethod
    def _hfs_lens():
        lens = set(range(0, 3500, 13))
        for b in (0, 32, 48, 64, 65, 81, 97, 1568, 1584, 1600, 1616, 1632, 1633, 1648, 1649, 1664, 1665, 1681, 3136, 3168, 3184, 3200, 3216, 3232, 3233, 3249, 3265, 3281):
            lens |= {max(0, b - 1), b, b + 1, b + 15, b + 16, b + 17}
        return sorted(lens)

    def _b_hfsw(self, desc):
        _, name, k, seed = desc
        c = Case("hfsw-%s-%d-%d" % (name, k, seed), desc)
        self._hfs_prefix(c, name, seed, k)
        w = "A" if k % 2 == 0 else "B"
        for L in self._hfs_lens():
            c.op("hs_write", w, pay="gen:5:w", buf=L)
        c.info = {"cls": "hfsw", "variant": name.split("_")[1], "dh": name.split("_")[2]}
        return c

    def _b_hfsr(self, desc):
        _, name, k, seed = desc
        c = Case("hfsr-%s-%d-%d" % (name, k, seed), desc)
        self._hfs_prefix(c, name, seed, k)
        w, r = ("A", "B") if k % 2 == 0 else ("B", "A")
        c.op("hs_write", w, pay="gen:5:w", buf=sessions.BIGBUF, out="g", flags=("q",))
        for L in self._hfs_lens():
            c.op("hs_read", r, msg="$g~trunc:%d" % L, buf=random.Random(L).choice([0, 100]))
            if L % 5 == 0:
                c.op("hs_read", r, msg="zero:%d" % L, buf=100)
        c.op("hs_read", r, msg="$g~flip:9000", buf=100)
        c.op("hs_read", r, msg="$g", buf=0)
        c.op("hs_read", r, msg="$g", buf=100)
        c.info = {"cls": "hfsr", "variant": name.split("_")[1], "dh": name.split("_")[2]}
        return c

    # ------------------------------------------------------------ sanitizer workloads (thorough)

    def san_cases(self, tool):
        rnd = random.Random(self.seed * 13 + len(tool))
        cases = []
        if tool in ("asan", "valgrind"):
            n = 260 if tool == "asan" else 64
            names = [make_name(p, ps, dh, ci, ha) for (p, ps), dh, ci, ha in zip(
                [rnd.choice([("XX", ()), ("IK", ()), ("X1X1", ()), ("N", (0,)), ("XX", (0, 3)), ("KK", (2,)), ("NX1", ()), ("K", ())]) for _ in range(n)],
                [rnd.choice(DHS) for _ in range(n)], [rnd.choice(CIPHERS) for _ in range(n)], [rnd.choice(HASHES) for _ in range(n)])]
            for i, name in enumerate(names):
                parsed = parse_name_simple(name)
                kind = ["hsw", "hsr", "tr", "misc"][i % 4]
                k = rnd.randrange(parsed.nmsgs) if kind != "tr" else rnd.randrange(2)
                cases.append(self.build((kind, name, k, rnd.getrandbits(24))))
            cases.append(self.build(("parse", rnd.getrandbits(32))))
            for dh in DHS:
                cases.append(self.build(("build", "XX", dh, "i", "s", 1)))
                cases.append(self.build(("build", "KK", dh, "r", "rs", 2)))
        else:  # miri: tiny scripts on the pure-Rust back end
            self._force_res = ("D", "D")
            self._tiny = True
            try:
                for i in range(16):
                    name = make_name(["NN", "XX", "NK", "X"][i % 4], (), "25519", CIPHERS[i % 3], HASHES[i % 4])
                    parsed = parse_name_simple(name)
                    kind = ["hsw", "hsr", "tr"][i % 3]
                    k = rnd.randrange(parsed.nmsgs) if kind != "tr" else i % 2
                    cases.append(self.build((kind, name, k, rnd.getrandbits(24))))
            finally:
                self._force_res = None
                self._tiny = False
        return cases

    def extra_runs(self, binary):
        import collections

        stats = collections.Counter()
        viols = []
        notes = {}
        if self.tier != "thorough" and not os.environ.get("VERIF_SAN"):
            notes["sanitizers"] = "not run in quick tier (thorough runs AddressSanitizer, valgrind memcheck and Miri)"
            return stats, viols, notes
        from .. import sanit

        for tool in ("asan", "valgrind", "miri"):
            try:
                res = sanit.run_tool(self, tool)
            except core.Inconclusive as e:
                notes[tool] = "inconclusive: %s" % str(e)[:500]
                stats[tool + "_inconclusive"] += 1
                continue
            notes[tool] = res["note"]
            stats.update(res["stats"])
            viols.extend(res["violations"])
        return stats, viols, notes

    # ------------------------------------------------------------ judge

    def judge(self, case, events, death):
        r = core.CaseResult()
        cls = case.info.get("cls", "?")
        variant = case.info.get("variant", "-")
        if death is not None:
            if death.get("confirmed"):
                r.viol("C10|death|%s|rc=%s" % (cls, death.get("rc_isolated")), "driver died or hung in case %s (rc %r, alone %r): %s" % (case.id, death.get("rc"), death.get("rc_isolated"), death.get("stderr", "")[-300:]))
            else:
                r.inconclusive.append("driver died/hung in case %s under load but not alone (rc %r)" % (case.id, death.get("rc")))
        for e in events:
            if e.skipped:
                r.stats["skipped"] += 1
                continue
            r.stats["calls"] += 1
            r.stats["calls_" + e.op] += 1
            res = e.res
            if e.panic:
                msg, f = core.panic_sig(res)
                ctx = case.meta.get(int(e.label)) if e.label.isdigit() else None
                r.viol("C10|%s|%s@%s%s" % (e.op, msg, f, "|" + ctx if ctx else ""), "%s panicked in case %s (op %s%s): %s" % (e.op, case.id, e.label, ", " + ctx if ctx else "", res[:200]))
                outcome = "panic"
            elif e.ok:
                outcome = "ok"
            elif e.err:
                outcome = e.errkind()
            else:
                outcome = res.split(":")[0]
            if "o.panic" in e.kv:
                r.viol("C10|getter|%s" % core.norm_msg(e.kv["o.panic"])[:80], "a state getter panicked after %s in case %s" % (e.op, case.id))
            r.keys.add((e.op, cls, variant, outcome))
            r.sets.setdefault("op_outcome_pairs", set()).add((e.op, outcome))
            r.nontrivial = True
        return r
