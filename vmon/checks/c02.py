"""C02 honest sessions complete, agree and deliver every payload: agreement checker over the
event log (needs no crypto model: message count from the pattern table, payload and hash equality)."""
import random

from noiseref.patterns import CIPHERS, DHS, HASHES, all_names, all_variants, make_name, needs_local_static, needs_remote_static, parse_name_simple

from .. import core, sessions
from ..script import Case, gen_bytes
from ..shadow import decode_out

import hashlib


def payload_matches(ev, expected):
    b, ln, sh = decode_out(ev.kv.get("out"))
    if b is not None:
        return b == expected
    if ln is None:
        return False
    return ln == len(expected) and hashlib.sha256(expected).digest() == sh


class CheckC02(core.Check):
    id = "C02"
    level = "exploration"
    cfg = "A"
    rule = (
        "case = one honest snow<->snow session with library-generated static keys and OS-random ephemerals (PSKs partly installed late, a quarter "
        "of the sessions with refused caller slips - wrong turn, unusable buffer - before the right call); "
        "oracle = agreement (finish after exactly N messages, no Err, payload equality, equal handshake hashes); "
        "distinct key = (protocol name, payload-length classes, transport plan, mode, resolver pair); non-trivial = session "
        "ran to the end of its transport plan with every delivery compared"
    )
    assumptions = ["message count per pattern comes from the independent pattern table"]
    min_required = {"sessions_completed": 100, "payloads_delivered": 300}
    cases_per_shard = 150

    def plan(self):
        rnd = random.Random(self.seed * 104729 + 2)
        descs = []
        combos = [(d, c, h) for d in DHS for c in CIPHERS for h in HASHES]
        self.exhaustive = True  # every protocol name is run; keys, payloads and traffic shapes are sampled
        for n in all_names():
            for _ in range(1 if self.tier == "quick" else 8):
                descs.append((n, rnd.getrandbits(32)))
        return descs

    def extra_cfg_plans(self):
        """thorough: hfs + Kyber1024 sessions on the hfs build (agreement only: Kyber draws its own randomness)"""
        if self.tier != "thorough":
            return []
        rnd = random.Random(self.seed * 31 + 5)
        descs = []
        for p, ps in all_variants():
            if p in ("N", "K", "X") or len(ps) > 1:
                continue  # hfs cannot be combined with one-way patterns
            for _ in range(2):
                descs.append((make_name(p, ps, rnd.choice(DHS), rnd.choice(CIPHERS), rnd.choice(HASHES)), rnd.getrandbits(32), rnd.choice(["hfs-last", "hfs-first"])))
        return [("B", descs)]

    def build(self, desc):
        name, seed = desc[0], desc[1]
        parsed = parse_name_simple(name)
        hfs = desc[2] if len(desc) > 2 else None
        if hfs:
            f = name.split("_")
            mods = [m for m in parsed.mods]
            mods = (mods + ["hfs"]) if hfs == "hfs-last" else (["hfs"] + mods)
            name = "_".join([f[0], parsed.pattern + "+".join(mods), f[2] + "+Kyber1024", f[3], f[4]])
        rnd = random.Random(seed)
        c = Case("h-%s-%d" % (name, seed), desc)
        res = (rnd.choice(["D", "D", "R", "DR", "N"]), rnd.choice(["D", "D", "R", "DR", "N"]))
        pat = parsed.pattern
        psks = {n: gen_bytes("psk%d.%d" % (n, seed), 32) for n in parsed.psks}
        prologue = sessions.prologue_choice(rnd, 32, 64)
        # a PSK may also arrive late: through set_psk() just before the message that needs it (the usual server flow)
        late = {"A": set(n for n in psks if rnd.random() < 0.2), "B": set(n for n in psks if rnd.random() < 0.2)}
        c.party("A", "i", name, res=res[0], rng="os", prologue=prologue, psks={n: v for n, v in psks.items() if n not in late["A"]}, rec="-")
        c.party("B", "r", name, res=res[1], rng="os", prologue=prologue, psks={n: v for n, v in psks.items() if n not in late["B"]}, rec="-")
        unneeded = rnd.random() < 0.15
        if needs_local_static(pat, True) or needs_remote_static(pat, False) or unneeded:
            c.op("keygen", "A", out="pubA", flags=("store",))
        if needs_local_static(pat, False) or needs_remote_static(pat, True) or unneeded:
            c.op("keygen", "B", out="pubB", flags=("store",))
        if needs_remote_static(pat, True) or unneeded:
            c.op("set_rs", "A", key="$pubB")
        if needs_remote_static(pat, False) or unneeded:
            c.op("set_rs", "B", key="$pubA")
        c.meta["build"] = (c.op("build", "A"), c.op("build", "B"))
        maxp = sessions.max_payloads(parsed)
        maxp0 = list(maxp)
        if hfs:
            maxp = [m - 3300 for m in maxp]  # room for the KEM public key / ciphertext and their tags
        big = rnd.random() < 0.1
        pays = [sessions.payload_len_choice(rnd, m, 0.4 if big else 0.0) for m in maxp]
        if rnd.random() < 0.2:
            pays = [0] * len(pays)
        hs = []
        clumsy = rnd.random() < 0.25 and not hfs
        for i in range(parsed.nmsgs):
            w, r = ("A", "B") if i % 2 == 0 else ("B", "A")
            for pid in (w, r):
                for n in sorted(late[pid]):
                    if (n == 0 and i == 0) or (n > 0 and n - 1 == i):
                        if pid == w or True:
                            c.meta.setdefault("setpsk", []).append(c.op("set_psk", pid, loc=n, key=psks[n]))
            if clumsy and rnd.random() < 0.5:
                # a caller's slip that the library refuses (wrong turn, a buffer that cannot hold the message): the messages
                # exchanged are still unmodified, the session must complete all the same
                slip = rnd.choice(["wturn", "rturn", "buf"])
                if slip == "wturn":
                    c.meta.setdefault("slips", []).append(c.op("hs_write", r, pay="gen:3:slip", buf=sessions.BIGBUF))
                elif slip == "rturn":
                    c.meta.setdefault("slips", []).append(c.op("hs_read", w, msg="gen:%d:slipm%d" % (rnd.choice([0, 48, 96]), i), buf=sessions.BIGBUF))
                else:
                    c.meta.setdefault("slips", []).append(c.op("hs_write", w, pay="gen:%d:hp%d.%d" % (pays[i], seed, i), buf=rnd.choice([0, (65535 - maxp0[i]) + pays[i] - 1])))
            lw = c.op("hs_write", w, pay="gen:%d:hp%d.%d" % (pays[i], seed, i), buf=sessions.BIGBUF, out="m%d" % i)
            # payload buffers of every legal size: exact, a few spare bytes, message length, large
            lr = c.op("hs_read", r, msg="$m%d" % i, buf=rnd.choice([sessions.BIGBUF, pays[i], pays[i] + rnd.randrange(1, 16), pays[i] + 16]))
            hs.append((lw, lr, "hp%d.%d" % (seed, i), pays[i]))
        c.meta["hs"] = hs
        stateless = rnd.random() < 0.4
        c.meta["conv"] = (c.op("to_stateless" if stateless else "to_transport", "A"), c.op("to_stateless" if stateless else "to_transport", "B"))
        ntr = rnd.randrange(1, 13)
        tr = []
        cnt = [0, 0]
        shape = []
        for k in range(ntr):
            d = 0 if parsed.oneway else rnd.randrange(2)
            ln = sessions.payload_len_choice(rnd, 65535 - 16, 0.05)
            if rnd.random() < 0.15:
                ln = 0
            w, r = ("A", "B") if d == 0 else ("B", "A")
            shape.append((d, _cls(ln)))
            if stateless:
                n = cnt[d] if rnd.random() < 0.5 else rnd.getrandbits(64) % (2**64 - 1)
                lw = c.op("st_write", w, n=n, pay="gen:%d:tp%d.%d" % (ln, seed, k), buf=sessions.BIGBUF, out="t%d" % k)
                lr = c.op("st_read", r, n=n, msg="$t%d" % k, buf=rnd.choice([sessions.BIGBUF, ln, ln + rnd.randrange(1, 16), ln + 16]))
            else:
                lw = c.op("t_write", w, pay="gen:%d:tp%d.%d" % (ln, seed, k), buf=sessions.BIGBUF, out="t%d" % k)
                lr = c.op("t_read", r, msg="$t%d" % k, buf=rnd.choice([sessions.BIGBUF, ln, ln + rnd.randrange(1, 16), ln + 16]))
            cnt[d] += 1
            tr.append((lw, lr, "tp%d.%d" % (seed, k), ln))
        c.meta["tr"] = tr
        c.info = {"name": name, "key": (name, tuple(_cls(x) for x in pays), tuple(shape), stateless, res)}
        return c

    def judge(self, case, events, death):
        r = core.CaseResult()
        name = case.info["name"]
        variant = name.split("_")[1]
        n = len(case.meta["hs"])
        by = {}
        for e in events:
            by[e.label] = e
        if death is not None:
            r.viol("C02|death|%s" % variant, "%s: driver died during an honest session" % name)
            return r

        def bad(what, e, tag):
            r.viol("C02|%s|%s|%s" % (tag, e.op if e else "-", variant), "%s: %s (%s)" % (name, what, e.res if e else "no event"))

        for lab in case.meta["build"]:
            e = by.get(str(lab))
            if e is None or not e.ok:
                bad("build of an honest party failed", e, "build")
                return r
        for lab in case.meta.get("slips", []):
            e = by.get(str(lab))
            if e is None or e.panic or e.ok:
                r.foreign_dev("C11/C14", "a call that must be refused was not: %s" % (e.res[:60] if e else "missing"))
                return r
            r.stats["refused_slips_in_honest_sessions"] += 1
        for i, (lw, lr, pseed, plen) in enumerate(case.meta["hs"]):
            ew, er = by.get(str(lw)), by.get(str(lr))
            if ew is None or not ew.ok:
                bad("handshake write %d failed in an honest run" % i, ew, "hs_write")
                return r
            if er is None or not er.ok:
                bad("handshake read %d failed in an honest run" % i, er, "hs_read")
                return r
            pay = gen_bytes(pseed, plen)
            if not payload_matches(er, pay):
                bad("handshake payload %d not delivered as written" % i, er, "hs_payload")
                return r
            r.stats["payloads_delivered"] += 1
            last = i == n - 1
            for e, who in ((ew, "writer"), (er, "reader")):
                fin = e.obs().get("fin")
                if fin != ("1" if last else "0"):
                    bad("%s reports finished=%s after message %d of %d" % (who, fin, i + 1, n), e, "finished")
                    return r
        ew, er = by[str(case.meta["hs"][-1][0])], by[str(case.meta["hs"][-1][1])]
        if ew.obs().get("hh") != er.obs().get("hh"):
            bad("handshake hashes differ between the parties", er, "hash")
            return r
        r.stats["hashes_agreed"] += 1
        for lab in case.meta["conv"]:
            e = by.get(str(lab))
            if e is None or not e.ok:
                bad("conversion to transport mode failed after an honest handshake", e, "convert")
                return r
        for k, (lw, lr, pseed, plen) in enumerate(case.meta["tr"]):
            ew, er = by.get(str(lw)), by.get(str(lr))
            if ew is None or not ew.ok:
                bad("transport write %d failed in an honest run" % k, ew, "t_write")
                return r
            if er is None or not er.ok:
                bad("transport read %d failed in an honest run" % k, er, "t_read")
                return r
            if not payload_matches(er, gen_bytes(pseed, plen)):
                bad("transport payload %d not delivered as written" % k, er, "t_payload")
                return r
            r.stats["payloads_delivered"] += 1
        r.stats["sessions_completed"] += 1
        r.nontrivial = True
        r.keys.add(case.info["key"])
        return r


def _cls(n):
    for i, b in enumerate((0, 15, 63, 1023, 59999)):
        if n <= b:
            return i
    return 5
