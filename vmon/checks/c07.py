"""C07 failed calls are no-ops. Differential oracle: a faulted session and a clean twin (same keys,
same per-write ephemerals) must agree on every successful output and observation; a failed call
must leave every public observation of its party unchanged; the correct step must then succeed."""
import random

from noiseref.patterns import CIPHERS, DHS, HASHES, PATTERN_NAMES, all_variants, make_name, parse_name_simple

from .. import core, faults, sessions
from ..script import Case


class CheckC07(core.Check):
    id = "C07"
    level = "fault_enumeration"
    cfg = "A"
    rule = (
        "case = one session with 1-3 injected failing calls (every failure cause, buffers cut at every token boundary and "
        "inside every field, altered/truncated/foreign/oversize messages, missing PSK, out-of-turn, a counter parked on 2^64-1) each followed by the "
        "correct call, then the rest of the handshake and transport traffic, run next to a fault-free twin with identical "
        "keys and ephemerals; distinct key = (pattern+psk variant, DH, set of (step, cause class)); non-trivial = at least "
        "one injected call actually failed and at least one later output was compared with the twin"
    )
    assumptions = [
        "twin comparison is independent of the reference model: it judges 'as if the failed call had never been made' directly",
        "injected faults are ones that must fail by C11/C14/C03 (computed from the model's field layout); a fault that does not fire is counted, not judged",
    ]
    min_required = {"failed_calls_observed": 500, "post_failure_outputs_compared": 1000}
    cases_per_shard = 250

    def plan(self):
        rnd = random.Random(self.seed * 15485863 + 7)
        descs = []
        if self.tier == "quick":
            for p in PATTERN_NAMES:
                for ps in [()] + rnd.sample([x for x in self._psk_sets(p) if x], 2):
                    for _ in range(200 if not ps else 120):
                        name = make_name(p, ps, rnd.choice(DHS), rnd.choice(CIPHERS), rnd.choice(HASHES))
                        descs.append((name, rnd.getrandbits(32)))
        else:
            for p, ps in all_variants():
                for dh in DHS:
                    for ci in ("ChaChaPoly", "AESGCM"):
                        for _ in range(120):
                            descs.append((make_name(p, ps, dh, ci, rnd.choice(HASHES)), rnd.getrandbits(32)))
        return descs

    @staticmethod
    def _psk_sets(p):
        from noiseref.patterns import valid_psk_sets

        return valid_psk_sets(p)

    def build(self, desc):
        name, seed = desc
        rnd = random.Random(seed)
        parsed = parse_name_simple(name)
        c = Case("nf-%s-%d" % (name, seed), desc)
        res = (rnd.choice(["D", "D", "R", "DR"]), rnd.choice(["D", "D", "R", "DR"]))
        h = faults.History(c, name, seed, "perw", res=res, rec=("r", "r"), twin=True, transport=rnd.choice(["tr", "tr", "sl", "mixA", "mixB"]))
        maxp = sessions.max_payloads(parsed)
        paylens = [min(m, rnd.choice([0, 1, 5, 16, 33, 100])) for m in maxp]
        plan, ma, mb = faults.random_fault_plan(parsed, paylens, rnd, nslots=rnd.choice([1, 1, 2, 3]), consecutive=rnd.choice([1, 2, 3]))
        supply = (rnd.choice(["needed", "needed", "all"]), rnd.choice(["needed", "needed", "all"]))  # 'all': also pinned / unneeded keys
        h.setup(missing_a=ma, missing_b=mb, prologue=sessions.prologue_choice(rnd, 32, 64), supply=supply)
        h.handshake(paylens, plan)
        h.convert()
        h.transport_phase(rnd, nmsgs=4, fault_rate=0.35, exhaust=True)
        h.done()
        c.info = {"name": name}
        return c

    def judge(self, case, events, death):
        r = core.CaseResult()
        name = case.info["name"]
        f = name.split("_")
        variant, dh = f[1], f[2]
        if death is not None:
            r.foreign_dev("C10", "driver died")
            return r
        by = {e.label: e for e in events}
        faults_ = {str(l): (party, op, cause) for l, party, op, cause in case.meta["faults"]}
        pair_of = {str(a): (str(b), what) for a, b, what in case.meta["pairs"]}
        prev_obs = {}
        fired = []
        compared_after_failure = 0
        any_failed = {"A": False, "B": False}
        for e in events:
            p = e.party
            if p.endswith("2") or p == "-":
                continue
            lab = e.label
            if lab in faults_:
                party, op, cause = faults_[lab]
                ccls = cause.split("@")[0]
                if e.skipped:
                    continue
                if e.panic:
                    r.foreign_dev("C10", "panic at injected %s (%s)" % (op, ccls))
                    return r
                if e.ok:
                    # the fault did not fire: not C07's business (C14/C03/C11 own that); stop judging
                    r.stats["faults_not_fired"] += 1
                    r.foreign_dev("C14/C03/C11", "injected %s (%s) returned Ok" % (op, ccls))
                    return r
                r.stats["failed_calls_observed"] += 1
                r.stats["failed_" + op] += 1
                fired.append((op, ccls))
                any_failed[p] = True
                before = prev_obs.get(p)
                now = e.obs()
                if before is not None:
                    for k, old in before.items():
                        if now.get(k) != old:
                            r.viol(
                                "C07|obs|%s|%s|%s" % (k, op, _cc(ccls)),
                                "%s: failed %s (%s, %s) changed %s of %s: %s -> %s" % (name, op, cause, e.res, k, p, old[:70], str(now.get(k))[:70]),
                            )
                            return r
                    r.stats["observation_sets_compared"] += 1
                prev_obs[p] = now
                continue
            prev_obs[p] = e.obs()
            if lab not in pair_of:
                continue
            tl, what = pair_of[lab]
            t = by.get(tl)
            if t is None or not t.ok:
                r.foreign_dev("C02", "twin session did not complete")
                return r
            after = any_failed["A"] or any_failed["B"]
            last = ",".join("%s:%s" % (o, _cc(cc)) for o, cc in fired[-2:]) or "-"
            if not e.ok:
                if e.panic:
                    r.foreign_dev("C10", "panic in %s" % e.op)
                    return r
                if not after:
                    r.foreign_dev("C02", "honest step failed before any injected failure")
                    return r
                r.viol(
                    "C07|step-fails|%s|after:%s" % (e.op, last),
                    "%s: %s %s returned %s after failed call(s) %s although the same step succeeds in the fault-free twin" % (name, e.op, lab, e.res, fired),
                )
                return r
            diff = _diff(e, t)
            if diff:
                if not after:
                    r.foreign_dev("C20/C01", "twin differs before any failure: %s" % diff)
                    return r
                r.viol(
                    "C07|diverged|%s|%s|after:%s" % (e.op, diff, last),
                    "%s: %s %s differs from the fault-free twin in %s after failed call(s) %s" % (name, e.op, lab, diff, fired),
                )
                return r
            if after:
                compared_after_failure += 1
        r.stats["post_failure_outputs_compared"] += compared_after_failure
        r.sets.setdefault("fault_causes", set()).update((o, _cc(c)) for o, c in fired)
        if fired and compared_after_failure:
            r.nontrivial = True
            r.keys.add((variant, dh, tuple(sorted(set((o, _cc(c)) for o, c in fired)))))
        return r


def _cc(cause):
    return cause.rstrip("0123456789")


def _diff(e, t):
    if e.res != t.res:
        return "result"
    for k in ("out", "outd"):
        if e.kv.get(k) != t.kv.get(k):
            return "bytes"
    oe, ot = e.obs(), t.obs()
    for k in set(oe) | set(ot):
        if oe.get(k) != ot.get(k):
            return "obs." + k
    return None
