"""Fault-history generator shared by C06 and C07: an honest session into which failing calls are
injected at places the model's field layout picks (every token boundary, inside every field, every
failure cause), each followed by the correct call. Optionally emits a clean twin session."""
import random

from noiseref import prims
from noiseref.patterns import layout, parse_name_simple

from . import sessions
from .script import gen_bytes

BIG = sessions.BIGBUF


def msg_geometry(parsed, k, paylen):
    publen = prims.DH_PUBLEN[parsed.dh]
    fields, hk, off = layout(parsed.pattern, parsed.psks, publen)[k]
    total = off + paylen + (16 if hk else 0)
    any_enc = hk or any(f.enc for f in fields)
    first_enc = None
    for f in fields:
        if f.enc:
            first_enc = f.off
            break
    if first_enc is None and hk:
        first_enc = off
    return fields, hk, off, total, any_enc, first_enc, publen


def write_fault_choices(parsed, k, paylen):
    """failing-write variants for message k: (kind, arg)"""
    fields, hk, off, total, any_enc, first_enc, publen = msg_geometry(parsed, k, paylen)
    out = [("turn", None), ("big", None)]
    cuts = {0, total - 1, max(0, total - 16), max(0, total - 17)}
    for f in fields:
        cuts |= {f.off, f.off + 1, f.off + publen - 1, f.off + publen, f.off + f.len - 1, f.off + f.len, f.off + f.len + 1}
    cuts |= {off, off + 1, off + paylen, off + paylen + 1}
    for L in sorted(x for x in cuts if 0 <= x < total):
        out.append(("buf", L))
    psk_here = psk_of_message(parsed, k)
    for n in psk_here:
        out.append(("psk", n))
    return out


def psk_of_message(parsed, k):
    res = []
    for n in parsed.psks:
        if (n == 0 and k == 0) or (n > 0 and n - 1 == k):
            res.append(n)
    return res


def read_fault_choices(parsed, k, paylen, rnd):
    fields, hk, off, total, any_enc, first_enc, publen = msg_geometry(parsed, k, paylen)
    out = [("turn", None), ("oversize", None)]
    fixed = off
    for L in sorted({0, 1, fixed - 1, fixed // 2} | {f.off for f in fields} | {f.off + f.len - 1 for f in fields}):
        if 0 <= L < fixed:
            out.append(("trunc", L))
    if any_enc:
        # any alteration of a message with an encrypted field must be rejected by this read
        for L in sorted({fixed, total - 1, total - 16, first_enc + 1}):
            if 0 <= L < total:
                out.append(("trunc", L))
        bits = set()
        for f in fields:
            bits |= {f.off * 8, (f.off + f.len) * 8 - 1, (f.off + f.len // 2) * 8 + 3}
        if hk:
            bits |= {off * 8, total * 8 - 1, (total - 16) * 8, (total - 8) * 8 + 5}
        for b in sorted(x for x in bits if 0 <= x < total * 8):
            out.append(("flip", b))
        out.append(("garbage", total))
        if hk:
            out.append(("ext", rnd.choice([1, 15, 16, 17])))
    if paylen >= 1:
        out.append(("paybuf", paylen - 1))
        out.append(("paybuf", 0))
    for n in psk_of_message(parsed, k):
        out.append(("psk", n))
    return out


T_WRITE_FAULTS = [("buf", 0), ("buf", 15), ("bufm1", None), ("big", None)]
T_READ_FAULTS = [("garbage", None), ("trunc", 15), ("trunc", 0), ("truncm1", None), ("flip", 0), ("fliplast", None), ("paybuf", None), ("oversize", None), ("ext", 1)]


class History:
    """Emits a faulted session (parties A,B) and, if twin=True, a clean twin (A2,B2) into a Case.
    meta: 'faults' = [(label, party, op, cause)], 'pairs' = [(label, twin_label, what)]."""

    def __init__(self, case, name, seed, rng_mode, res=("D", "D"), rec=("r", "r"), twin=True, transport="tr"):
        self.c = case
        self.parsed = parse_name_simple(name)
        self.seed = seed
        self.twin = twin
        self.keys = sessions.Keys(self.parsed, seed)
        self.faults = []
        self.pairs = []
        self.rng_mode = rng_mode
        self.res = res
        self.rec = rec
        self.transport = transport
        self.missing = {"A": set(), "B": set()}

    def _rng(self, pid):
        if self.rng_mode == "perw":
            return "perw:%d%s" % (self.seed, pid[0])
        if self.rng_mode == "script":
            return "script:%d%s" % (self.seed, pid)
        return "os"

    def setup(self, missing_a=(), missing_b=(), prologue=None, supply=("needed", "needed")):
        p = self.parsed
        self.missing = {"A": set(missing_a), "B": set(missing_b)}
        self.supply = supply
        for pid, role, res, rec in (("A", True, self.res[0], self.rec[0]), ("B", False, self.res[1], self.rec[1])):
            kw = sessions.party_kwargs(p, self.keys, role, supply[0 if role else 1])
            kw["psks"] = {n: v for n, v in kw["psks"].items() if n not in self.missing[pid]}
            self.c.party(pid, "i" if role else "r", p.name, res=res, rng=self._rng(pid), prologue=prologue, rec=rec, **kw)
        if self.twin:
            for pid, role, res in (("A2", True, self.res[0]), ("B2", False, self.res[1])):
                kw = sessions.party_kwargs(p, self.keys, role, supply[0 if role else 1])
                # the twin gets its PSKs at the same moments (late, through set_psk) - it only lacks the failing calls
                kw["psks"] = {n: v for n, v in kw["psks"].items() if n not in self.missing[pid[0]]}
                self.c.party(pid, "i" if role else "r", p.name, res=res, rng=self._rng(pid), prologue=prologue, rec="r", **kw)
        la, lb = self.c.op("build", "A"), self.c.op("build", "B")
        if self.twin:
            self.pairs.append((la, self.c.op("build", "A2"), "build"))
            self.pairs.append((lb, self.c.op("build", "B2"), "build"))

    def pay(self, k):
        return "gen:%d:hp%d.%d" % (self.paylens[k], self.seed, k)

    def handshake(self, paylens, fault_plan):
        """fault_plan: dict (('w'|'r'), k) -> list of (kind, arg)"""
        p = self.parsed
        c = self.c
        self.paylens = paylens
        for k in range(p.nmsgs):
            w, r = ("A", "B") if k % 2 == 0 else ("B", "A")
            fields, hk, off, total, any_enc, first_enc, publen = msg_geometry(p, k, paylens[k])
            for kind, arg in fault_plan.get(("w", k), []):
                self._write_fault(k, w, r, kind, arg, total, off)
            lw = c.op("hs_write", w, pay=self.pay(k), buf=BIG, out="m%d" % k)
            if self.twin:
                self.pairs.append((lw, c.op("hs_write", w + "2", pay=self.pay(k), buf=BIG, out="n%d" % k), "hs_write"))
            for kind, arg in fault_plan.get(("r", k), []):
                self._read_fault(k, w, r, kind, arg, total, paylens[k])
            lr = c.op("hs_read", r, msg="$m%d" % k, buf=BIG)
            if self.twin:
                self.pairs.append((lr, c.op("hs_read", r + "2", msg="$n%d" % k, buf=BIG), "hs_read"))

    def _fault(self, lab, party, op, cause):
        self.faults.append((lab, party, op, cause))

    def _write_fault(self, k, w, r, kind, arg, total, off):
        c = self.c
        if kind == "turn":
            self._fault(c.op("hs_write", r, pay=self.pay(k), buf=BIG), r, "hs_write", "turn")
        elif kind == "big":
            mx = 65535 - (total - self.paylens[k])
            self._fault(c.op("hs_write", w, pay="gen:%d:big" % (mx + 1), buf=BIG), w, "hs_write", "big")
        elif kind == "buf":
            self._fault(c.op("hs_write", w, pay=self.pay(k), buf=arg), w, "hs_write", "buf@%d/%d" % (arg, total))
        elif kind == "psk":
            if arg in self.missing[w]:
                self._fault(c.op("hs_write", w, pay=self.pay(k), buf=BIG), w, "hs_write", "psk%d" % arg)
                c.op("set_psk", w, loc=arg, key=self.keys.psks[arg])
                if self.twin:
                    c.op("set_psk", w + "2", loc=arg, key=self.keys.psks[arg])
                self.missing[w].discard(arg)

    def _read_fault(self, k, w, r, kind, arg, total, paylen):
        c = self.c
        reg = "$m%d" % k
        if kind == "turn":
            self._fault(c.op("hs_read", w, msg=reg, buf=BIG), w, "hs_read", "turn")
        elif kind == "oversize":
            self._fault(c.op("hs_read", r, msg="%s~ext:zero:%d" % (reg, 65536 - total), buf=BIG), r, "hs_read", "oversize")
        elif kind == "trunc":
            self._fault(c.op("hs_read", r, msg="%s~trunc:%d" % (reg, arg), buf=BIG), r, "hs_read", "trunc@%d/%d" % (arg, total))
        elif kind == "flip":
            self._fault(c.op("hs_read", r, msg="%s~flip:%d" % (reg, arg), buf=BIG), r, "hs_read", "flip@%d/%d" % (arg // 8, total))
        elif kind == "garbage":
            self._fault(c.op("hs_read", r, msg="gen:%d:garb%d" % (arg, k), buf=BIG), r, "hs_read", "garbage")
        elif kind == "ext":
            self._fault(c.op("hs_read", r, msg="%s~ext:gen:%d:e" % (reg, arg), buf=BIG), r, "hs_read", "ext%d" % arg)
        elif kind == "paybuf":
            self._fault(c.op("hs_read", r, msg=reg, buf=arg), r, "hs_read", "paybuf")
        elif kind == "psk":
            if arg in self.missing[r]:
                self._fault(c.op("hs_read", r, msg=reg, buf=BIG), r, "hs_read", "psk%d" % arg)
                c.op("set_psk", r, loc=arg, key=self.keys.psks[arg])
                if self.twin:
                    c.op("set_psk", r + "2", loc=arg, key=self.keys.psks[arg])
                self.missing[r].discard(arg)

    def finish_missing(self):
        """PSKs left out but whose fault was not scheduled: supply them up front (before any use)"""
        for pid in ("A", "B"):
            for n in sorted(self.missing[pid]):
                self.c.op("set_psk", pid, loc=n, key=self.keys.psks[n])
            self.missing[pid] = set()

    def mode(self, pid):
        """'tr' | 'sl' for a party; transport 'mixA' = A stateless / B stateful, 'mixB' the other way round"""
        if self.transport in ("tr", "sl"):
            return self.transport
        return "sl" if (pid[0] == "A") == (self.transport == "mixA") else "tr"

    def convert(self):
        c = self.c
        for pid in ("A", "B"):
            op = "to_transport" if self.mode(pid) == "tr" else "to_stateless"
            l = c.op(op, pid)
            if self.twin:
                self.pairs.append((l, c.op(op, pid + "2"), op))

    def exhaustion_episode(self, rnd):
        """stateful only, no twin: drive the sender to 2^64-1 through the hook; the writes that then fail must not
        have encrypted anything (each failing retry carries a different payload), nor may the rekey that follows"""
        c = self.c
        if self.twin:
            return
        w, r = ("A", "B") if (self.parsed.oneway or rnd.random() < 0.5) else ("B", "A")
        if self.mode(w) != "tr" or self.mode(r) != "tr":
            return
        c.op("set_tx_nonce", w, n=2**64 - 2)
        c.op("set_rx_nonce", r, n=2**64 - 2)
        c.op("t_write", w, pay="gen:9:last", buf=BIG, out="xlast")
        c.op("t_read", r, msg="$xlast", buf=BIG)
        for i in range(rnd.randrange(1, 4)):
            self._fault(c.op("t_write", w, pay="gen:%d:ex%d" % (5 + i, i), buf=BIG), w, "t_write", "exhausted")
        self._fault(c.op("t_read", r, msg="$xlast", buf=BIG), r, "t_read", "exhausted")
        c.op("rekey_out", w)
        c.op("rekey_in", r)
        self._fault(c.op("t_write", w, pay="gen:7:after", buf=BIG), w, "t_write", "exhausted")

    def far_nonce_episode(self, rnd):
        """no twin: messages of one direction under one key at nonces a multiple of 2^32 (2^33, 2^48, 2^63) apart - distinct
        nonces at the Cipher trait, so only the keystream they produce can show a back end that folds them together"""
        c = self.c
        if self.twin:
            return
        w, r = ("A", "B") if (self.parsed.oneway or rnd.random() < 0.5) else ("B", "A")
        b0 = rnd.choice([1000, 1001, 4096, 2**31 + 5])  # beyond every nonce the transport phase used: reuse by the caller is not the library's
        nonces = [b0] + [b0 + d for d in rnd.sample([2**32, 2**33, 3 * 2**32, 2**48, 2**63], 2)]
        for i, n in enumerate(nonces):
            pay = "gen:%d:far%d.%d" % (rnd.choice([16, 32, 100]), self.seed, i)
            if self.mode(w) == "sl":
                c.op("st_write", w, n=n, pay=pay, buf=BIG, out="far%d" % i)
            else:
                c.op("set_tx_nonce", w, n=n)
                c.op("t_write", w, pay=pay, buf=BIG, out="far%d" % i)
            if self.mode(r) == "sl":
                c.op("st_read", r, n=n, msg="$far%d" % i, buf=BIG)
            else:
                c.op("set_rx_nonce", r, n=n)
                c.op("t_read", r, msg="$far%d" % i, buf=BIG)

    def transport_phase(self, rnd, nmsgs=4, fault_rate=0.5, rekeys=False, manual=False, stray_setrx=False, exhaust=False):
        c = self.c
        p = self.parsed
        cnt = [0, 0]
        for j in range(nmsgs * (1 if p.oneway else 2)):
            d = 0 if p.oneway else j % 2
            w, r = ("A", "B") if d == 0 else ("B", "A")
            wop = "st_write" if self.mode(w) == "sl" else "t_write"
            rop = "st_read" if self.mode(r) == "sl" else "t_read"
            ln = rnd.choice([0, 1, 16, 40, 300])
            pay = "gen:%d:tp%d.%d" % (ln, self.seed, j)
            nn = {"n": cnt[d]} if self.mode(w) == "sl" else {}
            rn_ = {"n": cnt[d]} if self.mode(r) == "sl" else {}
            if rekeys and rnd.random() < 0.3:
                for pid, op in ((w, "rekey_out"), (r, "rekey_in")):
                    l = c.op(op, pid)
                    if self.twin:
                        self.pairs.append((l, c.op(op, pid + "2"), op))
            if manual and not self.twin and rnd.random() < 0.25:
                # both ends install the same fresh key for this direction through the combined call
                key = gen_bytes("mk%d.%d" % (self.seed, j), 32).hex()
                for pid in (w, r):
                    c.op("rekey_manual", pid, i=key if d == 0 else "-", r=key if d == 1 else "-", flags=("sep",) if rnd.random() < 0.5 else ())
            if stray_setrx and not self.twin and self.mode(w) == "tr" and rnd.random() < 0.3:
                # a legal but pointless call on the SENDER: its own receiving counter (unused for a one-way initiator)
                c.op("set_rx_nonce", w, n=rnd.choice([0, 1, cnt[d]]))
            if rnd.random() < fault_rate:
                kind, arg = rnd.choice(T_WRITE_FAULTS)
                if kind == "buf":
                    self._fault(c.op(wop, w, pay=pay, buf=min(arg, ln + 15), **nn), w, wop, "buf")
                elif kind == "bufm1":
                    self._fault(c.op(wop, w, pay=pay, buf=ln + 15, **nn), w, wop, "buf")
                else:
                    self._fault(c.op(wop, w, pay="gen:65520:big", buf=BIG, **nn), w, wop, "big")
            if exhaust and rnd.random() < 0.15:
                # the counter is parked on the reserved value, the call is refused (Exhausted), the counter is put back:
                # as if that call had never been made
                if self.mode(w) == "sl":
                    self._fault(c.op(wop, w, pay=pay, buf=BIG, n=2**64 - 1), w, wop, "exhausted")
                else:
                    c.op("set_tx_nonce", w, n=2**64 - 1)
                    self._fault(c.op(wop, w, pay=pay, buf=BIG), w, wop, "exhausted")
                    c.op("set_tx_nonce", w, n=cnt[d])
            lw = c.op(wop, w, pay=pay, buf=BIG, out="t%d" % j, **nn)
            if self.twin:
                self.pairs.append((lw, c.op(wop, w + "2", pay=pay, buf=BIG, out="u%d" % j, **nn), wop))
            if exhaust and rnd.random() < 0.15:
                if self.mode(r) == "sl":
                    self._fault(c.op(rop, r, msg="$t%d" % j, buf=BIG, n=2**64 - 1), r, rop, "exhausted")
                else:
                    c.op("set_rx_nonce", r, n=2**64 - 1)
                    for _ in range(rnd.choice([1, 2])):
                        self._fault(c.op(rop, r, msg="$t%d" % j, buf=BIG), r, rop, "exhausted")
                    c.op("set_rx_nonce", r, n=cnt[d])
            if rnd.random() < fault_rate:
                kind, arg = rnd.choice(T_READ_FAULTS)
                reg = "$t%d" % j
                tot = ln + 16
                if kind == "garbage":
                    m = "gen:%d:tg%d" % (tot, j)
                elif kind == "trunc":
                    m = "%s~trunc:%d" % (reg, arg)
                elif kind == "truncm1":
                    m = "%s~trunc:%d" % (reg, tot - 1)
                elif kind == "flip":
                    m = "%s~flip:%d" % (reg, arg)
                elif kind == "fliplast":
                    m = "%s~flip:%d" % (reg, tot * 8 - 1)
                elif kind == "oversize":
                    m = "%s~ext:zero:%d" % (reg, 65536 - tot)
                elif kind == "ext":
                    m = "%s~ext:00" % reg
                else:
                    m = reg
                if kind == "paybuf":
                    if ln >= 1:
                        self._fault(c.op(rop, r, msg=m, buf=ln - 1, **rn_), r, rop, "paybuf")
                else:
                    self._fault(c.op(rop, r, msg=m, buf=BIG, **rn_), r, rop, kind)
            lr = c.op(rop, r, msg="$t%d" % j, buf=BIG, **rn_)
            if self.twin:
                self.pairs.append((lr, c.op(rop, r + "2", msg="$u%d" % j, buf=BIG, **rn_), rop))
            cnt[d] += 1

    def done(self):
        self.c.meta["faults"] = self.faults
        self.c.meta["pairs"] = self.pairs


def random_fault_plan(parsed, paylens, rnd, nslots, consecutive=2, missing=None):
    """choose fault slots and variants. returns (plan, missing_a, missing_b)"""
    steps = [(d, k) for k in range(parsed.nmsgs) for d in ("w", "r")]
    slots = rnd.sample(steps, min(nslots, len(steps)))
    plan = {}
    miss = {"A": set(), "B": set()}
    for d, k in slots:
        if d == "w":
            ch = write_fault_choices(parsed, k, paylens[k])
        else:
            ch = read_fault_choices(parsed, k, paylens[k], rnd)
        picks = [rnd.choice(ch) for _ in range(rnd.randrange(1, consecutive + 1))]
        w, r = ("A", "B") if k % 2 == 0 else ("B", "A")
        for kind, arg in picks:
            if kind == "psk":
                miss[w if d == "w" else r].add(arg)
        plan[(d, k)] = picks
    return plan, miss["A"], miss["B"]
