//! Recording crypto resolver: an ordinary `CryptoResolver` that wraps another one and logs
//! every cipher / rng / dh call. Also the scripted RNGs and the stub resolvers of C20.
use crate::util::{dig, gen_bytes, hex, hex_or_dash};
use rand_core::{CryptoRng, RngCore};
use snow::params::{CipherChoice, DHChoice, HashChoice};
#[cfg(feature = "hfs")]
use snow::params::KemChoice;
use snow::resolvers::{BoxedCryptoResolver, CryptoResolver, DefaultResolver, FallbackResolver};
#[cfg(feature = "ring")]
use snow::resolvers::RingResolver;
#[cfg(feature = "hfs")]
use snow::types::Kem;
use snow::types::{Cipher, Dh, Hash, Random};
use snow::Error;
use std::sync::atomic::{AtomicU32, AtomicU64, Ordering};
use std::sync::{Arc, Mutex};

pub struct Ctl {
    pub rec_c: bool,
    pub rec_r: bool,
    pub rec_d: bool,
    pub sink: Mutex<Vec<String>>,
    /// number of successful handshake writes on the party (perw RNG epoch)
    pub epoch: AtomicU64,
    /// bumped before every op on the party (perw RNG offset reset)
    pub opseq: AtomicU64,
    pub nobj: AtomicU32,
    pub nrng: AtomicU32,
}

impl Ctl {
    pub fn new(rec: &str) -> Ctl {
        Ctl {
            rec_c: rec.contains('c'),
            rec_r: rec.contains('r'),
            rec_d: rec.contains('d'),
            sink: Mutex::new(Vec::new()),
            epoch: AtomicU64::new(0),
            opseq: AtomicU64::new(0),
            nobj: AtomicU32::new(0),
            nrng: AtomicU32::new(0),
        }
    }
    fn push(&self, s: String) {
        self.sink.lock().unwrap_or_else(|e| e.into_inner()).push(s);
    }
    pub fn drain(&self) -> Vec<String> {
        core::mem::take(&mut *self.sink.lock().unwrap_or_else(|e| e.into_inner()))
    }
    fn obj(&self) -> u32 {
        self.nobj.fetch_add(1, Ordering::Relaxed)
    }
}

#[derive(Clone, Debug)]
pub enum RngMode {
    Os,
    Script(String),
    PerW(String),
    Lit(Vec<u8>),
}

pub fn parse_rng(s: &str) -> Result<RngMode, String> {
    if s == "os" {
        Ok(RngMode::Os)
    } else if let Some(x) = s.strip_prefix("script:") {
        Ok(RngMode::Script(x.to_string()))
    } else if let Some(x) = s.strip_prefix("perw:") {
        Ok(RngMode::PerW(x.to_string()))
    } else if let Some(x) = s.strip_prefix("lit:") {
        Ok(RngMode::Lit(crate::util::unhex(x)?))
    } else {
        Err(format!("bad rng mode {s}"))
    }
}

// ---------------------------------------------------------------- RNG

struct RecRng {
    inner: Option<Box<dyn Random>>,
    mode: RngMode,
    inst: u32,
    off: u64,
    last_opseq: u64,
    ctl: Arc<Ctl>,
}

impl RngCore for RecRng {
    fn next_u32(&mut self) -> u32 {
        rand_core::impls::next_u32_via_fill(self)
    }
    fn next_u64(&mut self) -> u64 {
        rand_core::impls::next_u64_via_fill(self)
    }
    fn fill_bytes(&mut self, dest: &mut [u8]) {
        match &self.mode {
            RngMode::Os => {
                self.inner.as_mut().expect("os rng").fill_bytes(dest);
            },
            RngMode::Script(seed) => {
                let s = format!("{}#{}", seed, self.inst);
                dest.copy_from_slice(&gen_bytes(s.as_bytes(), self.off, dest.len()));
            },
            RngMode::PerW(seed) => {
                let opseq = self.ctl.opseq.load(Ordering::Relaxed);
                if opseq != self.last_opseq {
                    self.last_opseq = opseq;
                    self.off = 0;
                }
                let s = format!("{}/{}", seed, self.ctl.epoch.load(Ordering::Relaxed));
                dest.copy_from_slice(&gen_bytes(s.as_bytes(), self.off, dest.len()));
            },
            RngMode::Lit(v) => {
                for (i, d) in dest.iter_mut().enumerate() {
                    let idx = self.off as usize + i;
                    *d = if idx < v.len() { v[idx] } else { 0 };
                }
            },
        }
        self.off += dest.len() as u64;
        if self.ctl.rec_r {
            self.ctl.push(format!("  r fill inst={} len={} bytes={}", self.inst, dest.len(), hex_or_dash(dest)));
        }
    }
    fn try_fill_bytes(&mut self, dest: &mut [u8]) -> Result<(), rand_core::Error> {
        self.fill_bytes(dest);
        Ok(())
    }
}
impl CryptoRng for RecRng {}
impl Random for RecRng {}

// ---------------------------------------------------------------- DH

struct RecDh {
    inner: Box<dyn Dh>,
    id: u32,
    ctl: Arc<Ctl>,
    /// `+hb`: an honest party whose X25519 public keys are encoded with bit 255 set (RFC 7748 receivers mask that bit, so
    /// the encoding is DH-equivalent; Noise hashes and reports the bytes as transmitted)
    high_bit: bool,
    pubcopy: Vec<u8>,
}

impl RecDh {
    fn refresh(&mut self) {
        self.pubcopy = self.inner.pubkey().to_vec();
        if self.high_bit && self.inner.name() == "25519" && self.pubcopy.len() == 32 {
            self.pubcopy[31] |= 0x80;
        }
    }
}

impl Dh for RecDh {
    fn name(&self) -> &'static str {
        self.inner.name()
    }
    fn pub_len(&self) -> usize {
        self.inner.pub_len()
    }
    fn priv_len(&self) -> usize {
        self.inner.priv_len()
    }
    fn set(&mut self, privkey: &[u8]) {
        self.inner.set(privkey);
        self.refresh();
        if self.ctl.rec_d {
            self.ctl.push(format!(
                "  d set obj=d{} priv={} pub={}",
                self.id,
                hex_or_dash(self.inner.privkey()),
                hex_or_dash(self.inner.pubkey())
            ));
        }
    }
    fn generate(&mut self, rng: &mut dyn Random) {
        self.inner.generate(rng);
        self.refresh();
        if self.ctl.rec_d {
            self.ctl.push(format!(
                "  d gen obj=d{} priv={} pub={}",
                self.id,
                hex_or_dash(self.inner.privkey()),
                hex_or_dash(self.inner.pubkey())
            ));
        }
    }
    fn pubkey(&self) -> &[u8] {
        if self.high_bit {
            &self.pubcopy
        } else {
            self.inner.pubkey()
        }
    }
    fn privkey(&self) -> &[u8] {
        self.inner.privkey()
    }
    fn dh(&self, pubkey: &[u8], out: &mut [u8]) -> Result<(), Error> {
        let r = self.inner.dh(pubkey, out);
        if self.ctl.rec_d {
            let pl = core::cmp::min(self.inner.pub_len(), pubkey.len());
            let dl = core::cmp::min(self.inner.dh_len(), out.len());
            self.ctl.push(format!(
                "  d dh obj=d{} pub={} out={} ok={}",
                self.id,
                hex_or_dash(&pubkey[..pl]),
                if r.is_ok() { hex_or_dash(&out[..dl]) } else { "-".into() },
                u8::from(r.is_ok())
            ));
        }
        r
    }
    fn dh_len(&self) -> usize {
        self.inner.dh_len()
    }
}

// ---------------------------------------------------------------- Cipher

struct RecCipher {
    inner: Box<dyn Cipher>,
    id: u32,
    key: [u8; 32],
    keyset: bool,
    /// the cipher defines its own REKEY (spec 4.2 allows that): k' = SHA-256("verif-rekey" || k)
    custom_rekey: bool,
    /// `+df`: a back end whose decrypt can fail for a reason of its own (not a bad tag): ciphertexts that start with
    /// DEC_FAULT_MAGIC are refused with Error::Input before the real cipher sees them
    dec_fault: bool,
    /// a second instance of the same cipher, used only to find out which key a REKEY really installed
    scratch: Option<Mutex<Box<dyn Cipher>>>,
    ctl: Arc<Ctl>,
}

pub const DEC_FAULT_MAGIC: &[u8] = b"\xde\xcf\xa0\x17vf";

impl RecCipher {
    fn keystr(&self) -> String {
        if self.keyset {
            hex(&self.key)
        } else {
            "unset".into()
        }
    }
}

impl Cipher for RecCipher {
    fn name(&self) -> &'static str {
        self.inner.name()
    }
    fn set(&mut self, key: &[u8; 32]) {
        self.inner.set(key);
        self.key = *key;
        self.keyset = true;
        if self.ctl.rec_c {
            self.ctl.push(format!("  c set obj=c{} key={}", self.id, hex(key)));
        }
    }
    fn encrypt(&self, nonce: u64, authtext: &[u8], plaintext: &[u8], out: &mut [u8]) -> usize {
        let n = self.inner.encrypt(nonce, authtext, plaintext, out);
        if self.ctl.rec_c {
            let m = core::cmp::min(n, out.len());
            self.ctl.push(format!(
                "  c enc obj=c{} key={} n={} ad={} pt={} ct={} ks={}",
                self.id,
                self.keystr(),
                nonce,
                hex_or_dash(authtext),
                dig(plaintext),
                dig(&out[..m]),
                // the first keystream bytes this (key, nonce) produced: two different nonces of one key must never
                // share them (an AEAD nonce collision beneath the trait boundary)
                if plaintext.len() >= 16 && m >= 16 {
                    hex(&plaintext[..16].iter().zip(&out[..16]).map(|(a, b)| a ^ b).collect::<Vec<u8>>())
                } else {
                    "-".to_string()
                }
            ));
        }
        n
    }
    fn decrypt(&self, nonce: u64, authtext: &[u8], ciphertext: &[u8], out: &mut [u8]) -> Result<usize, Error> {
        if self.dec_fault && ciphertext.starts_with(DEC_FAULT_MAGIC) {
            if self.ctl.rec_c {
                self.ctl.push(format!("  c decfault obj=c{} n={}", self.id, nonce));
            }
            return Err(Error::Input);
        }
        let r = self.inner.decrypt(nonce, authtext, ciphertext, out);
        if self.ctl.rec_c {
            self.ctl.push(format!(
                "  c dec obj=c{} key={} n={} ad={} ct={} ok={}",
                self.id,
                self.keystr(),
                nonce,
                hex_or_dash(authtext),
                dig(ciphertext),
                u8::from(r.is_ok())
            ));
        }
        r
    }
    fn rekey(&mut self) {
        if self.custom_rekey {
            let old = self.keystr();
            let mut m = b"verif-rekey".to_vec();
            m.extend_from_slice(&self.key);
            let nk = crate::util::sha256(&m);
            self.inner.set(&nk);
            self.key = nk;
            if self.ctl.rec_c {
                self.ctl.push(format!("  c rekey obj=c{} old={} new={} custom=1", self.id, old, self.keystr()));
            }
            return;
        }
        // what REKEY(k) is for the key the wrapper shadows, computed without side effects
        let mut buf = [0_u8; 48];
        let mut buf2 = [0_u8; 48];
        let old = self.keystr();
        let n = self.inner.encrypt(u64::MAX, &[], &[0_u8; 32], &mut buf);
        let n2 = self.inner.encrypt(u64::MAX - 1, &[], &[0_u8; 32], &mut buf2);
        self.inner.rekey();
        if n == 48 {
            self.key.copy_from_slice(&buf[..32]);
        }
        // which nonce did the real REKEY consume? compare the key now in effect with ENCRYPT(k, nonce, "", zeros)
        let mut used = "unchecked".to_string();
        if let (Some(sc), true, true) = (&self.scratch, n == 48, n2 == 48) {
            let mut sc = sc.lock().unwrap_or_else(|e| e.into_inner());
            let (mut real, mut cand) = ([0_u8; 32], [0_u8; 32]);
            self.inner.encrypt(0, &[], &[0_u8; 16], &mut real);
            let mut k = [0_u8; 32];
            k.copy_from_slice(&buf[..32]);
            sc.set(&k);
            sc.encrypt(0, &[], &[0_u8; 16], &mut cand);
            if real == cand {
                used = u64::MAX.to_string();
            } else {
                k.copy_from_slice(&buf2[..32]);
                sc.set(&k);
                sc.encrypt(0, &[], &[0_u8; 16], &mut cand);
                used = if real == cand { (u64::MAX - 1).to_string() } else { "unknown".to_string() };
            }
        }
        if self.ctl.rec_c {
            self.ctl.push(format!("  c rekey obj=c{} old={} new={} used={}", self.id, old, self.keystr(), used));
        }
    }
}

// ---------------------------------------------------------------- resolver

pub const HIDE_RNG: u8 = 1;
pub const HIDE_DH: u8 = 2;
pub const HIDE_CIPHER: u8 = 4;
pub const HIDE_HASH: u8 = 8;

pub struct RecResolver {
    pub inner: BoxedCryptoResolver,
    pub ctl: Arc<Ctl>,
    pub rng: RngMode,
    pub hide: u8,
    pub custom_rekey: bool,
    pub dec_fault: bool,
    pub high_bit: bool,
}

impl CryptoResolver for RecResolver {
    fn resolve_rng(&self) -> Option<Box<dyn Random>> {
        if self.hide & HIDE_RNG != 0 {
            return None;
        }
        // the wrapped resolver decides whether an RNG exists at all; a scripted stream only replaces its bytes
        let real = self.inner.resolve_rng()?;
        let inst = self.ctl.nrng.fetch_add(1, Ordering::Relaxed);
        let inner = match self.rng {
            RngMode::Os => Some(real),
            _ => None,
        };
        Some(Box::new(RecRng {
            inner,
            mode: self.rng.clone(),
            inst,
            off: 0,
            last_opseq: u64::MAX,
            ctl: self.ctl.clone(),
        }))
    }
    fn resolve_dh(&self, choice: &DHChoice) -> Option<Box<dyn Dh>> {
        if self.hide & HIDE_DH != 0 {
            return None;
        }
        let inner = self.inner.resolve_dh(choice)?;
        let mut d = RecDh { inner, id: self.ctl.obj(), ctl: self.ctl.clone(), high_bit: self.high_bit, pubcopy: Vec::new() };
        d.refresh();
        Some(Box::new(d))
    }
    fn resolve_hash(&self, choice: &HashChoice) -> Option<Box<dyn Hash>> {
        if self.hide & HIDE_HASH != 0 {
            return None;
        }
        self.inner.resolve_hash(choice)
    }
    fn resolve_cipher(&self, choice: &CipherChoice) -> Option<Box<dyn Cipher>> {
        if self.hide & HIDE_CIPHER != 0 {
            return None;
        }
        let inner = self.inner.resolve_cipher(choice)?;
        Some(Box::new(RecCipher {
            inner,
            id: self.ctl.obj(),
            key: [0; 32],
            keyset: false,
            custom_rekey: self.custom_rekey,
            dec_fault: self.dec_fault,
            scratch: if self.ctl.rec_c { self.inner.resolve_cipher(choice).map(Mutex::new) } else { None },
            ctl: self.ctl.clone(),
        }))
    }
    #[cfg(feature = "hfs")]
    fn resolve_kem(&self, choice: &KemChoice) -> Option<Box<dyn Kem>> {
        self.inner.resolve_kem(choice)
    }
}

/// a resolver that hides some primitive kinds of its inner resolver
pub struct HideResolver {
    inner: BoxedCryptoResolver,
    hide: u8,
}

impl CryptoResolver for HideResolver {
    fn resolve_rng(&self) -> Option<Box<dyn Random>> {
        if self.hide & HIDE_RNG != 0 {
            None
        } else {
            self.inner.resolve_rng()
        }
    }
    fn resolve_dh(&self, choice: &DHChoice) -> Option<Box<dyn Dh>> {
        if self.hide & HIDE_DH != 0 {
            None
        } else {
            self.inner.resolve_dh(choice)
        }
    }
    fn resolve_hash(&self, choice: &HashChoice) -> Option<Box<dyn Hash>> {
        if self.hide & HIDE_HASH != 0 {
            None
        } else {
            self.inner.resolve_hash(choice)
        }
    }
    fn resolve_cipher(&self, choice: &CipherChoice) -> Option<Box<dyn Cipher>> {
        if self.hide & HIDE_CIPHER != 0 {
            None
        } else {
            self.inner.resolve_cipher(choice)
        }
    }
    #[cfg(feature = "hfs")]
    fn resolve_kem(&self, choice: &KemChoice) -> Option<Box<dyn Kem>> {
        self.inner.resolve_kem(choice)
    }
}

/// `D`, `R` (ring preferred, default as fallback), `DR` (default preferred, ring fallback),
/// `Ronly`; optional suffixes `-rng`, `-dh`, `-cipher`, `-hash` hide one primitive kind;
/// `fb(<a>|<b>)` = FallbackResolver(a, b) of two such specs (one level, b may itself be fb(..)).
pub fn base_resolver(spec: &str) -> Result<(BoxedCryptoResolver, u8), String> {
    if let Some(inner) = spec.strip_prefix("fb(").and_then(|x| x.strip_suffix(')')) {
        let (a, b) = inner.split_once('|').ok_or("fb needs a|b")?;
        let (ra, ha) = base_resolver(a)?;
        let (rb, hb) = base_resolver(b)?;
        let ra: BoxedCryptoResolver = Box::new(HideResolver { inner: ra, hide: ha });
        let rb: BoxedCryptoResolver = Box::new(HideResolver { inner: rb, hide: hb });
        return Ok((Box::new(FallbackResolver::new(ra, rb)), 0));
    }
    let mut parts = spec.split('-');
    let base = parts.next().unwrap_or("");
    let mut hide = 0;
    for p in parts {
        hide |= match p {
            "rng" => HIDE_RNG,
            "dh" => HIDE_DH,
            "cipher" => HIDE_CIPHER,
            "hash" => HIDE_HASH,
            _ => return Err(format!("bad resolver suffix {p}")),
        };
    }
    let r: BoxedCryptoResolver = match base {
        "D" => Box::new(DefaultResolver),
        #[cfg(feature = "ring")]
        "R" => Box::new(FallbackResolver::new(Box::new(RingResolver), Box::new(DefaultResolver))),
        #[cfg(feature = "ring")]
        "DR" => Box::new(FallbackResolver::new(Box::new(DefaultResolver), Box::new(RingResolver))),
        #[cfg(feature = "ring")]
        "Ronly" => Box::new(RingResolver),
        _ => {
            if let Some(st) = parse_stub(base) {
                Box::new(st)
            } else {
                return Err(format!("unknown resolver {base}"));
            }
        },
    };
    Ok((r, hide))
}

/// a trailing `+rk` gives every cipher of the resolver its own REKEY function (see RecCipher)
pub fn make_resolver(spec: &str, ctl: Arc<Ctl>, rng: RngMode) -> Result<BoxedCryptoResolver, String> {
    let (spec, high_bit) = match spec.strip_suffix("+hb") {
        Some(s) => (s, true),
        None => (spec, false),
    };
    let (spec, dec_fault) = match spec.strip_suffix("+df") {
        Some(s) => (s, true),
        None => (spec, false),
    };
    let (spec, custom_rekey) = match spec.strip_suffix("+rk") {
        Some(s) => (s, true),
        None => (spec, false),
    };
    let (inner, hide) = base_resolver(spec)?;
    Ok(Box::new(RecResolver { inner, ctl, rng, hide, custom_rekey, dec_fault, high_bit }))
}

// ---------------------------------------------------------------- stubs (C20 truth table)

#[derive(Clone)]
pub struct StubResolver {
    pub tag: &'static str,
    pub fillb: u8,
    pub have: Vec<String>,
}

/// `stubA:rng,dh.Curve25519,cipher.AESGCM,...` (items separated by commas, `none` for empty)
pub fn parse_stub(s: &str) -> Option<StubResolver> {
    let (tag, rest) = s.split_once(':')?;
    let (tag, fillb) = match tag {
        "stubA" => ("stubA", 0xA0),
        "stubB" => ("stubB", 0xB0),
        "stubC" => ("stubC", 0xC0),
        _ => return None,
    };
    let have = rest.split(',').filter(|x| !x.is_empty() && *x != "none").map(str::to_string).collect();
    Some(StubResolver { tag, fillb, have })
}

struct StubRng(u8);
impl RngCore for StubRng {
    fn next_u32(&mut self) -> u32 {
        rand_core::impls::next_u32_via_fill(self)
    }
    fn next_u64(&mut self) -> u64 {
        rand_core::impls::next_u64_via_fill(self)
    }
    fn fill_bytes(&mut self, dest: &mut [u8]) {
        for d in dest {
            *d = self.0;
        }
    }
    fn try_fill_bytes(&mut self, dest: &mut [u8]) -> Result<(), rand_core::Error> {
        self.fill_bytes(dest);
        Ok(())
    }
}
impl CryptoRng for StubRng {}
impl Random for StubRng {}

struct StubObj(&'static str);
impl Dh for StubObj {
    fn name(&self) -> &'static str {
        self.0
    }
    fn pub_len(&self) -> usize {
        32
    }
    fn priv_len(&self) -> usize {
        32
    }
    fn set(&mut self, _: &[u8]) {}
    fn generate(&mut self, _: &mut dyn Random) {}
    fn pubkey(&self) -> &[u8] {
        &[0; 32]
    }
    fn privkey(&self) -> &[u8] {
        &[0; 32]
    }
    fn dh(&self, _: &[u8], _: &mut [u8]) -> Result<(), Error> {
        Ok(())
    }
}
impl Cipher for StubObj {
    fn name(&self) -> &'static str {
        self.0
    }
    fn set(&mut self, _: &[u8; 32]) {}
    fn encrypt(&self, _: u64, _: &[u8], p: &[u8], _: &mut [u8]) -> usize {
        p.len() + 16
    }
    fn decrypt(&self, _: u64, _: &[u8], c: &[u8], _: &mut [u8]) -> Result<usize, Error> {
        Ok(c.len().saturating_sub(16))
    }
}
impl Hash for StubObj {
    fn name(&self) -> &'static str {
        self.0
    }
    fn block_len(&self) -> usize {
        64
    }
    fn hash_len(&self) -> usize {
        32
    }
    fn reset(&mut self) {}
    fn input(&mut self, _: &[u8]) {}
    fn result(&mut self, _: &mut [u8]) {}
}

impl StubResolver {
    fn has(&self, k: &str) -> bool {
        self.have.iter().any(|x| x == k)
    }
}

impl CryptoResolver for StubResolver {
    fn resolve_rng(&self) -> Option<Box<dyn Random>> {
        if self.has("rng") {
            Some(Box::new(StubRng(self.fillb)))
        } else {
            None
        }
    }
    fn resolve_dh(&self, choice: &DHChoice) -> Option<Box<dyn Dh>> {
        if self.has(&format!("dh.{choice:?}")) {
            Some(Box::new(StubObj(self.tag)))
        } else {
            None
        }
    }
    fn resolve_hash(&self, choice: &HashChoice) -> Option<Box<dyn Hash>> {
        if self.has(&format!("hash.{choice:?}")) {
            Some(Box::new(StubObj(self.tag)))
        } else {
            None
        }
    }
    fn resolve_cipher(&self, choice: &CipherChoice) -> Option<Box<dyn Cipher>> {
        if self.has(&format!("cipher.{choice:?}")) {
            Some(Box::new(StubObj(self.tag)))
        } else {
            None
        }
    }
}

/// a resolver spec for `resolve_probe`: `D`, `R`, ..., `stubX:...`, or `fb(<a>|<b>)` (one level)
pub fn probe_resolver(spec: &str) -> Result<BoxedCryptoResolver, String> {
    if let Some(inner) = spec.strip_prefix("fb(").and_then(|x| x.strip_suffix(')')) {
        let (a, b) = inner.split_once('|').ok_or("fb needs a|b")?;
        return Ok(Box::new(FallbackResolver::new(probe_resolver(a)?, probe_resolver(b)?)));
    }
    Ok(base_resolver(spec)?.0)
}
