//! Script interpreter: performs exactly the public-API calls the script names and logs one
//! event line per call. Knows nothing about Noise.
use crate::rec::{make_resolver, parse_rng, probe_resolver, Ctl, RngMode};
use crate::util::{dig, enc_bytes, gen_bytes, hex, hex_or_dash, sanitize, unhex};
use snow::params::NoiseParams;
use snow::resolvers::BoxedCryptoResolver;
use snow::{Builder, HandshakeState, StatelessTransportState, TransportState};
use std::cell::RefCell;
use std::collections::HashMap;
use std::io::Write;
use std::panic::{catch_unwind, AssertUnwindSafe};
use std::sync::atomic::{AtomicU64, Ordering};
use std::sync::{Arc, Barrier};

thread_local! {
    pub static LAST_PANIC: RefCell<String> = const { RefCell::new(String::new()) };
}

pub fn install_panic_hook() {
    std::panic::set_hook(Box::new(|info| {
        let msg = if let Some(s) = info.payload().downcast_ref::<&str>() {
            (*s).to_string()
        } else if let Some(s) = info.payload().downcast_ref::<String>() {
            s.clone()
        } else {
            "non-string-payload".to_string()
        };
        let loc = info.location().map(|l| format!("{}:{}", l.file(), l.line())).unwrap_or_default();
        LAST_PANIC.with(|p| *p.borrow_mut() = format!("{}@{}", sanitize(&msg), sanitize(&loc)));
    }));
}

fn take_panic() -> String {
    LAST_PANIC.with(|p| core::mem::take(&mut *p.borrow_mut()))
}

pub enum St {
    None,
    Hs(Box<HandshakeState>),
    Tr(Box<TransportState>),
    Sl(Box<StatelessTransportState>),
    Gone,
    Poisoned,
}

pub struct Party {
    role_i: bool,
    name: Vec<u8>,
    res: String,
    rng: RngMode,
    s: Option<Vec<u8>>,
    rs: Option<Vec<u8>>,
    e: Option<Vec<u8>>,
    prologue: Option<Vec<u8>>,
    psks: Vec<(u8, [u8; 32])>,
    dup: String,
    st: St,
    ctl: Arc<Ctl>,
}

type Kv<'a> = HashMap<&'a str, &'a str>;
type Regs = HashMap<String, Vec<u8>>;

fn kv<'a>(toks: &[&'a str]) -> (Kv<'a>, Vec<&'a str>) {
    let mut m = HashMap::new();
    let mut flags = Vec::new();
    for t in toks {
        if let Some((k, v)) = t.split_once('=') {
            m.insert(k, v);
        } else {
            flags.push(*t);
        }
    }
    (m, flags)
}

/// byte-string spec: base[~mutation]*
pub fn eval_bytes(spec: &str, regs: &Regs) -> Result<Vec<u8>, String> {
    let mut parts = spec.split('~');
    let base = parts.next().unwrap_or("-");
    let mut v = eval_base(base, regs)?;
    for m in parts {
        let f: Vec<&str> = m.split(':').collect();
        match f[0] {
            "flip" => {
                let bit: usize = f.get(1).ok_or("flip:bit")?.parse().map_err(|_| "flip bit")?;
                if bit / 8 >= v.len() {
                    return Err("flip out of range".into());
                }
                v[bit / 8] ^= 1 << (bit % 8);
            },
            "trunc" => {
                let n: usize = f.get(1).ok_or("trunc:n")?.parse().map_err(|_| "trunc n")?;
                if n > v.len() {
                    return Err("trunc out of range".into());
                }
                v.truncate(n);
            },
            "drop" => {
                let n: usize = f.get(1).ok_or("drop:n")?.parse().map_err(|_| "drop n")?;
                if n > v.len() {
                    return Err("drop out of range".into());
                }
                v.drain(..n);
            },
            "ext" => {
                let rest = m.strip_prefix("ext:").ok_or("ext")?;
                v.extend_from_slice(&eval_base(rest, regs)?);
            },
            "pre" => {
                let rest = m.strip_prefix("pre:").ok_or("pre")?;
                let mut n = eval_base(rest, regs)?;
                n.extend_from_slice(&v);
                v = n;
            },
            "xor" | "set" => {
                let off: usize = f.get(1).ok_or("off")?.parse().map_err(|_| "off")?;
                let d = unhex(f.get(2).ok_or("data")?)?;
                if off + d.len() > v.len() {
                    return Err("xor/set out of range".into());
                }
                for (i, b) in d.iter().enumerate() {
                    if f[0] == "xor" {
                        v[off + i] ^= b;
                    } else {
                        v[off + i] = *b;
                    }
                }
            },
            _ => return Err(format!("unknown mutation {m}")),
        }
    }
    Ok(v)
}

fn eval_base(base: &str, regs: &Regs) -> Result<Vec<u8>, String> {
    if base == "-" || base.is_empty() {
        return Ok(Vec::new());
    }
    if let Some(r) = base.strip_prefix('$') {
        return regs.get(r).cloned().ok_or_else(|| format!("noreg:{r}"));
    }
    let f: Vec<&str> = base.split(':').collect();
    match f[0] {
        "gen" => {
            let len: usize = f.get(1).ok_or("gen len")?.parse().map_err(|_| "gen len")?;
            let seed = f.get(2).ok_or("gen seed")?;
            Ok(gen_bytes(seed.as_bytes(), 0, len))
        },
        "zero" => {
            let len: usize = f.get(1).ok_or("zero len")?.parse().map_err(|_| "zero len")?;
            Ok(vec![0; len])
        },
        "fill" => {
            let len: usize = f.get(1).ok_or("fill len")?.parse().map_err(|_| "fill len")?;
            let b: u8 = f.get(2).ok_or("fill byte")?.parse().map_err(|_| "fill byte")?;
            Ok(vec![b; len])
        },
        "lit" => unhex(f.get(1).ok_or("lit hex")?),
        _ => unhex(base),
    }
}

fn errs<E: core::fmt::Debug + core::fmt::Display>(e: E) -> String {
    // Display is part of the public surface too (must not panic); its text is not used
    let _ = format!("{e}");
    format!("err:{}", sanitize(&format!("{e:?}")))
}

fn obs(st: &St) -> String {
    // the Debug impls of the state types are public operations as well
    match st {
        St::Hs(h) => drop(format!("{h:?}")),
        St::Tr(t) => drop(format!("{t:?}")),
        St::Sl(t) => drop(format!("{t:?}")),
        _ => {},
    }
    match st {
        St::None => "o.st=none".into(),
        St::Gone => "o.st=gone".into(),
        St::Poisoned => "o.st=poisoned".into(),
        St::Hs(h) => format!(
            "o.st=hs o.turn={} o.fin={} o.init={} o.hh={} o.wpe={} o.rs={}",
            u8::from(h.is_my_turn()),
            u8::from(h.is_handshake_finished()),
            u8::from(h.is_initiator()),
            hex(h.get_handshake_hash()),
            u8::from(h.was_write_payload_encrypted()),
            h.get_remote_static().map_or("none".to_string(), hex_or_dash)
        ),
        St::Tr(t) => format!(
            "o.st=tr o.init={} o.rs={} o.sn={} o.rn={}",
            u8::from(t.is_initiator()),
            t.get_remote_static().map_or("none".to_string(), hex_or_dash),
            t.sending_nonce(),
            t.receiving_nonce()
        ),
        St::Sl(t) => format!(
            "o.st=sl o.init={} o.rs={}",
            u8::from(t.is_initiator()),
            t.get_remote_static().map_or("none".to_string(), hex_or_dash)
        ),
    }
}

fn safe_obs(p: &mut Party) -> String {
    match catch_unwind(AssertUnwindSafe(|| obs(&p.st))) {
        Ok(s) => s,
        Err(_) => {
            p.st = St::Poisoned;
            format!("o.st=poisoned o.panic={}", take_panic())
        },
    }
}

struct OpOut {
    res: String,
    extra: String,
}

impl OpOut {
    fn r(res: impl Into<String>) -> OpOut {
        OpOut { res: res.into(), extra: String::new() }
    }
}

fn do_build(p: &mut Party) -> OpOut {
    let name = match String::from_utf8(p.name.clone()) {
        Ok(n) => n,
        Err(_) => return OpOut::r("skipped:notutf8"),
    };
    let params: NoiseParams = match name.parse() {
        Ok(x) => x,
        Err(e) => return OpOut::r(errs(e)),
    };
    let mut b = if p.res == "N" {
        Builder::new(params)
    } else {
        match make_resolver(&p.res, p.ctl.clone(), p.rng.clone()) {
            Ok(r) => Builder::with_resolver(params, r),
            Err(e) => return OpOut::r(format!("skipped:{}", sanitize(&e))),
        }
    };
    macro_rules! step {
        ($e:expr) => {
            match $e {
                Ok(nb) => nb,
                Err(e) => return OpOut::r(errs(e)),
            }
        };
    }
    let _ = format!("{b:?}");
    if let Some(s) = &p.s {
        b = step!(b.local_private_key(s));
        if p.dup.contains('s') {
            b = step!(b.local_private_key(s));
        }
    }
    if let Some(rs) = &p.rs {
        b = step!(b.remote_public_key(rs));
        if p.dup.contains('r') {
            b = step!(b.remote_public_key(rs));
        }
    }
    if let Some(pl) = &p.prologue {
        b = step!(b.prologue(pl));
        if p.dup.contains('p') {
            b = step!(b.prologue(pl));
        }
    }
    if let Some(e) = &p.e {
        b = b.fixed_ephemeral_key_for_testing_only(e);
    }
    for (loc, key) in &p.psks {
        b = step!(b.psk(*loc, key));
        if p.dup.contains('k') {
            b = step!(b.psk(*loc, key));
        }
    }
    let r = if p.role_i { b.build_initiator() } else { b.build_responder() };
    match r {
        Ok(h) => {
            p.st = St::Hs(Box::new(h));
            OpOut::r("ok")
        },
        Err(e) => OpOut::r(errs(e)),
    }
}

fn num<T: core::str::FromStr>(m: &Kv, k: &str) -> Result<T, String> {
    m.get(k).ok_or_else(|| format!("missing {k}"))?.parse::<T>().map_err(|_| format!("bad {k}"))
}

fn bytes_arg(m: &Kv, k: &str, regs: &Regs) -> Result<Vec<u8>, String> {
    eval_bytes(m.get(k).copied().unwrap_or("-"), regs)
}

fn out_fields(m: &Kv, flags: &[&str], res_ok: Option<usize>, buf: &[u8]) -> String {
    let mut s = String::new();
    if let Some(n) = res_ok {
        let k = core::cmp::min(n, buf.len());
        if flags.contains(&"q") {
            s.push_str(&format!(" outd={}", dig(&buf[..k])));
        } else {
            s.push_str(&format!(" out={}", enc_bytes(&buf[..k])));
        }
    }
    if let Some(d) = m.get("dump") {
        let n: usize = d.parse().unwrap_or(0);
        let k = core::cmp::min(n, buf.len());
        s.push_str(&format!(" buf={}", hex_or_dash(&buf[..k])));
    }
    s
}

fn key32(v: &[u8]) -> Option<[u8; 32]> {
    if v.len() == 32 {
        let mut k = [0_u8; 32];
        k.copy_from_slice(v);
        Some(k)
    } else {
        None
    }
}

/// one op on one party; may panic (caller catches)
fn exec_party_op(op: &str, p: &mut Party, m: &Kv, flags: &[&str], regs: &mut Regs) -> Result<OpOut, String> {
    let fill: u8 = m.get("fill").map_or(Ok(0xA5), |x| x.parse()).map_err(|_| "bad fill")?;
    match op {
        "build" => Ok(do_build(p)),
        "obs" => Ok(OpOut::r("ok")),
        "hs_write" | "t_write" | "st_write" => {
            let pay = bytes_arg(m, "pay", regs)?;
            let blen: usize = num(m, "buf")?;
            let mut buf = vec![fill; blen];
            let r = match (&mut p.st, op) {
                (St::Hs(h), "hs_write") => h.write_message(&pay, &mut buf),
                (St::Tr(t), "t_write") => t.write_message(&pay, &mut buf),
                (St::Sl(t), "st_write") => t.write_message(num(m, "n")?, &pay, &mut buf),
                _ => return Ok(OpOut::r("skipped:state")),
            };
            match r {
                Ok(n) => {
                    if op == "hs_write" {
                        p.ctl.epoch.fetch_add(1, Ordering::Relaxed);
                    }
                    if let Some(reg) = m.get("out") {
                        regs.insert((*reg).to_string(), buf[..core::cmp::min(n, buf.len())].to_vec());
                    }
                    Ok(OpOut { res: format!("ok:{n}"), extra: out_fields(m, flags, Some(n), &buf) })
                },
                Err(e) => Ok(OpOut { res: errs(e), extra: out_fields(m, flags, None, &buf) }),
            }
        },
        "hs_read" | "t_read" | "st_read" => {
            let msg = bytes_arg(m, "msg", regs)?;
            let blen: usize = num(m, "buf")?;
            let mut buf = vec![fill; blen];
            let r = match (&mut p.st, op) {
                (St::Hs(h), "hs_read") => h.read_message(&msg, &mut buf),
                (St::Tr(t), "t_read") => t.read_message(&msg, &mut buf),
                (St::Sl(t), "st_read") => t.read_message(num(m, "n")?, &msg, &mut buf),
                _ => return Ok(OpOut::r("skipped:state")),
            };
            match r {
                Ok(n) => {
                    if let Some(reg) = m.get("out") {
                        regs.insert((*reg).to_string(), buf[..core::cmp::min(n, buf.len())].to_vec());
                    }
                    Ok(OpOut { res: format!("ok:{n}"), extra: out_fields(m, flags, Some(n), &buf) })
                },
                Err(e) => Ok(OpOut { res: errs(e), extra: out_fields(m, flags, None, &buf) }),
            }
        },
        "set_psk" => {
            let key = bytes_arg(m, "key", regs)?;
            let loc: usize = num(m, "loc")?;
            match &mut p.st {
                St::Hs(h) => Ok(OpOut::r(match h.set_psk(loc, &key) {
                    Ok(()) => "ok".to_string(),
                    Err(e) => errs(e),
                })),
                _ => Ok(OpOut::r("skipped:state")),
            }
        },
        "to_transport" | "to_stateless" => {
            let st = core::mem::replace(&mut p.st, St::Gone);
            match st {
                St::Hs(h) => {
                    // `tf`: use the public TryFrom conversions instead of the into_* methods
                    let tf = flags.contains(&"tf");
                    if op == "to_transport" {
                        let r = if tf { TransportState::try_from(*h) } else { h.into_transport_mode() };
                        match r {
                            Ok(t) => {
                                p.st = St::Tr(Box::new(t));
                                Ok(OpOut::r("ok"))
                            },
                            Err(e) => Ok(OpOut::r(errs(e))),
                        }
                    } else {
                        let r = if tf { StatelessTransportState::try_from(*h) } else { h.into_stateless_transport_mode() };
                        match r {
                            Ok(t) => {
                                p.st = St::Sl(Box::new(t));
                                Ok(OpOut::r("ok"))
                            },
                            Err(e) => Ok(OpOut::r(errs(e))),
                        }
                    }
                },
                other => {
                    p.st = other;
                    Ok(OpOut::r("skipped:state"))
                },
            }
        },
        "rekey_out" | "rekey_in" => {
            match (&mut p.st, op) {
                (St::Tr(t), "rekey_out") => t.rekey_outgoing(),
                (St::Tr(t), "rekey_in") => t.rekey_incoming(),
                (St::Sl(t), "rekey_out") => t.rekey_outgoing(),
                (St::Sl(t), "rekey_in") => t.rekey_incoming(),
                _ => return Ok(OpOut::r("skipped:state")),
            }
            Ok(OpOut::r("ok"))
        },
        "rekey_manual" => {
            let ki = m.get("i").filter(|x| **x != "-").map(|x| unhex(x)).transpose()?;
            let kr = m.get("r").filter(|x| **x != "-").map(|x| unhex(x)).transpose()?;
            let ki = match ki {
                Some(v) => Some(key32(&v).ok_or("i not 32 bytes")?),
                None => None,
            };
            let kr = match kr {
                Some(v) => Some(key32(&v).ok_or("r not 32 bytes")?),
                None => None,
            };
            let sep = flags.contains(&"sep");
            match &mut p.st {
                St::Tr(t) => {
                    if sep {
                        if let Some(k) = &ki {
                            t.rekey_initiator_manually(k);
                        }
                        if let Some(k) = &kr {
                            t.rekey_responder_manually(k);
                        }
                    } else {
                        t.rekey_manually(ki.as_ref(), kr.as_ref());
                    }
                },
                St::Sl(t) => {
                    if sep {
                        if let Some(k) = &ki {
                            t.rekey_initiator_manually(k);
                        }
                        if let Some(k) = &kr {
                            t.rekey_responder_manually(k);
                        }
                    } else {
                        t.rekey_manually(ki.as_ref(), kr.as_ref());
                    }
                },
                _ => return Ok(OpOut::r("skipped:state")),
            }
            Ok(OpOut::r("ok"))
        },
        "set_rx_nonce" | "set_tx_nonce" => {
            let n: u64 = num(m, "n")?;
            match &mut p.st {
                St::Tr(t) => {
                    if op == "set_rx_nonce" {
                        t.set_receiving_nonce(n);
                    } else {
                        t.verif_set_sending_nonce(n);
                    }
                    Ok(OpOut::r("ok"))
                },
                _ => Ok(OpOut::r("skipped:state")),
            }
        },
        "keygen" => {
            let name = String::from_utf8(p.name.clone()).map_err(|_| "notutf8")?;
            let params: NoiseParams = match name.parse() {
                Ok(x) => x,
                Err(e) => return Ok(OpOut::r(errs(e))),
            };
            let b = if p.res == "N" {
                Builder::new(params)
            } else {
                Builder::with_resolver(params, make_resolver(&p.res, p.ctl.clone(), p.rng.clone())?)
            };
            match b.generate_keypair() {
                Ok(kp) => {
                    let mut extra = format!(" priv={} pub={}", hex_or_dash(&kp.private), hex_or_dash(&kp.public));
                    if flags.contains(&"cmp") {
                        // `Keypair: PartialEq` is a public operation too: compare with copies of other shapes
                        let mut eqs = 0_u32;
                        for (pl, ql) in [(kp.private.len(), kp.public.len()), (0, kp.public.len()), (1, kp.public.len()), (kp.private.len().saturating_sub(1), kp.public.len()), (kp.private.len(), 0), (kp.private.len(), kp.public.len().saturating_sub(1))] {
                            let mut other = snow::Keypair { private: kp.private[..pl].to_vec(), public: kp.public[..ql].to_vec() };
                            eqs += u32::from(kp == other) + u32::from(other == kp);
                            other.private.extend_from_slice(&[7, 7, 7]);
                            eqs += u32::from(kp == other) + u32::from(other == kp);
                        }
                        extra.push_str(&format!(" eqs={eqs}"));
                    }
                    if flags.contains(&"store") {
                        p.s = Some(kp.private.clone());
                    }
                    if let Some(reg) = m.get("out") {
                        regs.insert((*reg).to_string(), kp.public.clone());
                    }
                    Ok(OpOut { res: "ok".into(), extra })
                },
                Err(e) => Ok(OpOut::r(errs(e))),
            }
        },
        "set_rs" => {
            // party configuration change before build: remote static := bytes spec (may reference a register)
            p.rs = Some(bytes_arg(m, "key", regs)?);
            Ok(OpOut::r("ok"))
        },
        _ => Err(format!("unknown op {op}")),
    }
}

fn parse_party(toks: &[&str]) -> Result<(String, Party), String> {
    let id = toks.first().ok_or("party id")?.to_string();
    let (m, _) = kv(&toks[1..]);
    let opt = |k: &str| -> Result<Option<Vec<u8>>, String> {
        match m.get(k) {
            None => Ok(None),
            Some(v) if *v == "none" => Ok(None),
            Some(v) => Ok(Some(eval_bytes(v, &HashMap::new())?)),
        }
    };
    let mut psks = Vec::new();
    for (k, v) in &m {
        if let Some(n) = k.strip_prefix("psk") {
            let loc: u8 = n.parse().map_err(|_| "psk loc")?;
            let key = key32(&eval_bytes(v, &HashMap::new())?).ok_or("psk must be 32 bytes")?;
            psks.push((loc, key));
        }
    }
    psks.sort_by_key(|x| x.0);
    let p = Party {
        role_i: match m.get("role").copied() {
            Some("i") => true,
            Some("r") => false,
            _ => return Err("role".into()),
        },
        name: unhex(m.get("name").ok_or("name")?)?,
        res: m.get("res").unwrap_or(&"D").to_string(),
        rng: parse_rng(m.get("rng").unwrap_or(&"os"))?,
        s: opt("s")?,
        rs: opt("rs")?,
        e: opt("e")?,
        prologue: opt("prologue")?,
        psks,
        dup: m.get("dup").unwrap_or(&"").to_string(),
        st: St::None,
        ctl: Arc::new(Ctl::new(m.get("rec").unwrap_or(&"r"))),
    };
    Ok((id, p))
}

pub struct Interp<W: Write> {
    out: W,
    parties: HashMap<String, Party>,
    regs: Regs,
    opno: usize,
}

impl<W: Write> Interp<W> {
    pub fn new(out: W) -> Self {
        Interp { out, parties: HashMap::new(), regs: HashMap::new(), opno: 0 }
    }

    fn emit(&mut self, s: &str) {
        let _ = self.out.write_all(s.as_bytes());
        let _ = self.out.write_all(b"\n");
    }

    fn party_op(&mut self, label: &str, op: &str, pid: &str, m: &Kv, flags: &[&str]) -> String {
        let Some(p) = self.parties.get_mut(pid) else {
            let l = format!("ev {label} {op} {pid} res=skipped:noparty");
            self.emit(&l);
            return "skipped:noparty".into();
        };
        if matches!(p.st, St::Poisoned) {
            let l = format!("ev {label} {op} {pid} res=skipped:poisoned");
            self.emit(&l);
            return "skipped:poisoned".into();
        }
        p.ctl.opseq.fetch_add(1, Ordering::Relaxed);
        let regs = &mut self.regs;
        let r = catch_unwind(AssertUnwindSafe(|| exec_party_op(op, p, m, flags, regs)));
        let (res, extra) = match r {
            Ok(Ok(o)) => (o.res, o.extra),
            Ok(Err(e)) => (format!("skipped:{}", sanitize(&e)), String::new()),
            Err(_) => {
                p.st = St::Poisoned;
                (format!("panic:{}", take_panic()), String::new())
            },
        };
        let o = safe_obs(p);
        let sink = p.ctl.drain();
        let l = format!("ev {label} {op} {pid} res={res}{extra} {o}");
        self.emit(&l);
        for s in sink {
            self.emit(&s);
        }
        res
    }

    fn hs_flags(&self, pid: &str) -> Option<(bool, bool)> {
        match &self.parties.get(pid)?.st {
            St::Hs(h) => Some((h.is_my_turn(), h.is_handshake_finished())),
            _ => None,
        }
    }

    fn pingpong(&mut self, label: &str, toks: &[&str]) {
        let (m, _) = kv(toks);
        let (Some(a), Some(b)) = (m.get("a").copied(), m.get("b").copied()) else {
            self.emit(&format!("ev {label} pingpong - res=skipped:args"));
            return;
        };
        let max: usize = m.get("max").and_then(|x| x.parse().ok()).unwrap_or(8);
        let plen: usize = m.get("plen").and_then(|x| x.parse().ok()).unwrap_or(0);
        let seed = m.get("seed").copied().unwrap_or("pp");
        let buf = m.get("buf").copied().unwrap_or("70000");
        let mut end = "max";
        for step in 0..max {
            let (Some(fa), Some(fb)) = (self.hs_flags(a), self.hs_flags(b)) else {
                end = "nostate";
                break;
            };
            if fa.1 && fb.1 {
                end = "bothfin";
                break;
            }
            let (w, r) = if fa.0 && !fa.1 {
                (a, b)
            } else if fb.0 && !fb.1 {
                (b, a)
            } else {
                end = "stuck";
                break;
            };
            let pay = format!("gen:{plen}:{seed}.{step}");
            let reg = format!("pp{step}");
            let mut wm: Kv = HashMap::new();
            wm.insert("pay", &pay);
            wm.insert("buf", buf);
            wm.insert("out", &reg);
            let res = self.party_op(&format!("{label}.{}", 2 * step), "hs_write", w, &wm, &[]);
            if !res.starts_with("ok") {
                end = "werr";
                break;
            }
            let msg = format!("${reg}");
            let mut rm: Kv = HashMap::new();
            rm.insert("msg", &msg);
            rm.insert("buf", buf);
            let res = self.party_op(&format!("{label}.{}", 2 * step + 1), "hs_read", r, &rm, &[]);
            if !res.starts_with("ok") {
                end = "rerr";
                break;
            }
        }
        if end == "max" {
            if let (Some(fa), Some(fb)) = (self.hs_flags(a), self.hs_flags(b)) {
                if fa.1 && fb.1 {
                    end = "bothfin";
                }
            }
        }
        self.emit(&format!("ev {label} pingpong - res=done:{end}"));
    }

    fn direct_op(&mut self, label: &str, op: &str, toks: &[&str]) {
        let (m, flags) = kv(toks);
        let regs = &self.regs;
        let r = catch_unwind(AssertUnwindSafe(|| crate::prim::exec_direct(op, &m, &flags, regs)));
        let line = match r {
            Ok(Ok(s)) => format!("ev {label} {op} - {s}"),
            Ok(Err(e)) => format!("ev {label} {op} - res=skipped:{}", sanitize(&e)),
            Err(_) => format!("ev {label} {op} - res=panic:{}", take_panic()),
        };
        self.emit(&line);
    }

    /// returns false at EOF
    pub fn run<'a, I: Iterator<Item = &'a str>>(&mut self, lines: &mut I) {
        while let Some(line) = lines.next() {
            let toks: Vec<&str> = line.split_ascii_whitespace().collect();
            if toks.is_empty() || toks[0].starts_with('#') {
                continue;
            }
            match toks[0] {
                "case" => {
                    self.parties.clear();
                    self.regs.clear();
                    self.opno = 0;
                    self.emit(&format!("case {}", toks.get(1).unwrap_or(&"?")));
                    let _ = self.out.flush();
                },
                "end" => {
                    self.emit("end");
                    self.parties.clear();
                    self.regs.clear();
                    let _ = self.out.flush();
                },
                "party" => match parse_party(&toks[1..]) {
                    Ok((id, p)) => {
                        self.parties.insert(id, p);
                    },
                    Err(e) => self.emit(&format!("bad party {}", sanitize(&e))),
                },
                // orchestrator self-test only (never generated by a check): lets the watchdog / death isolation be exercised
                "debug_hang" => loop {
                    std::thread::sleep(std::time::Duration::from_secs(3600));
                },
                "debug_abort" => std::process::abort(),
                "reg" => {
                    // reg <name> <bytes spec>
                    if let (Some(n), Some(s)) = (toks.get(1), toks.get(2)) {
                        match eval_bytes(s, &self.regs) {
                            Ok(v) => {
                                self.regs.insert((*n).to_string(), v);
                            },
                            Err(e) => self.emit(&format!("bad reg {}", sanitize(&e))),
                        }
                    }
                },
                "pingpong" => {
                    let label = self.opno.to_string();
                    self.opno += 1;
                    self.pingpong(&label, &toks[1..]);
                },
                "conc" => {
                    let label = self.opno.to_string();
                    self.opno += 1;
                    let mut thr: Vec<Vec<String>> = Vec::new();
                    for l in lines.by_ref() {
                        let t: Vec<&str> = l.split_ascii_whitespace().collect();
                        if t.first() == Some(&"endconc") {
                            break;
                        }
                        if t.first() == Some(&"thr") {
                            thr.push(t[1..].iter().map(|x| (*x).to_string()).collect());
                        }
                    }
                    let (m, _) = kv(&toks[1..]);
                    let ticks = m.get("ticks").is_none_or(|x| *x != "0");
                    self.conc(&label, &thr, ticks);
                },
                op if op.starts_with("prim_") || op == "parse" || op == "resolve_probe" => {
                    let label = self.opno.to_string();
                    self.opno += 1;
                    self.direct_op(&label, op, &toks[1..]);
                },
                op => {
                    let label = self.opno.to_string();
                    self.opno += 1;
                    let pid = toks.get(1).copied().unwrap_or("?");
                    let (m, flags) = kv(toks.get(2..).unwrap_or(&[]));
                    self.party_op(&label, op, pid, &m, &flags);
                },
            }
        }
        let _ = self.out.flush();
    }

    fn conc(&mut self, label: &str, thr: &[Vec<String>], ticks: bool) {
        let mut sl: HashMap<&str, &StatelessTransportState> = HashMap::new();
        for (k, p) in &self.parties {
            if let St::Sl(t) = &p.st {
                sl.insert(k.as_str(), t);
            }
        }
        let regs = &self.regs;
        let ticket = AtomicU64::new(0);
        let barrier = Barrier::new(thr.len());
        // second, spinning phase of the start barrier: threads woken from the futex at different times wait here until
        // all are running, so that their first calls really overlap
        let ready = AtomicU64::new(0);
        let ready = &ready;
        let nthr = thr.len() as u64;
        let sl = &sl;
        let ticket = &ticket;
        let barrier = &barrier;
        let results: Vec<Vec<String>> = std::thread::scope(|s| {
            let hs: Vec<_> = thr
                .iter()
                .enumerate()
                .map(|(ti, ops)| {
                    s.spawn(move || {
                        let mut lines = Vec::with_capacity(ops.len());
                        barrier.wait();
                        ready.fetch_add(1, Ordering::AcqRel);
                        let mut spins = 0_u64;
                        while ready.load(Ordering::Acquire) < nthr && spins < 50_000_000 {
                            core::hint::spin_loop();
                            spins += 1;
                        }
                        for (seq, op) in ops.iter().enumerate() {
                            let f: Vec<&str> = op.split(',').collect();
                            match f[0] {
                                "y" => {
                                    std::thread::yield_now();
                                    continue;
                                },
                                "s" => {
                                    let n: u64 = f.get(1).and_then(|x| x.parse().ok()).unwrap_or(100);
                                    let mut acc = 0_u64;
                                    for i in 0..n {
                                        acc = acc.wrapping_add(core::hint::black_box(i));
                                    }
                                    core::hint::black_box(acc);
                                    continue;
                                },
                                _ => {},
                            }
                            let t0 = if ticks { ticket.fetch_add(1, Ordering::Relaxed) } else { 0 };
                            let r = catch_unwind(AssertUnwindSafe(|| conc_op(&f, sl, regs)));
                            let t1 = if ticks { ticket.fetch_add(1, Ordering::Relaxed) } else { 0 };
                            let res = match r {
                                Ok(Ok(s)) => s,
                                Ok(Err(e)) => format!("res=skipped:{}", sanitize(&e)),
                                Err(_) => format!("res=panic:{}", take_panic()),
                            };
                            lines.push(format!("  t thr={ti} seq={seq} t0={t0} t1={t1} op={op} {res}"));
                        }
                        lines
                    })
                })
                .collect();
            hs.into_iter()
                .map(|h| h.join().unwrap_or_else(|_| vec!["  t res=panic:thread".to_string()]))
                .collect()
        });
        self.emit(&format!("ev {label} conc - res=done threads={}", thr.len()));
        for ls in results {
            for l in ls {
                self.emit(&l);
            }
        }
        // drain sinks (recording should be off for conc parties, but keep the log tidy)
        let mut extra = Vec::new();
        for p in self.parties.values() {
            extra.extend(p.ctl.drain());
        }
        for l in extra {
            self.emit(&l);
        }
    }
}

/// `w,P,nonce,len,seed` | `r,P,nonce,reg,buflen` | `rt,PW,PR,nonce,len,seed`
fn conc_op(f: &[&str], sl: &HashMap<&str, &StatelessTransportState>, regs: &Regs) -> Result<String, String> {
    let party = |k: &str| sl.get(k).copied().ok_or_else(|| format!("noparty:{k}"));
    match f[0] {
        "w" => {
            let t = party(f.get(1).ok_or("w party")?)?;
            let n: u64 = f.get(2).ok_or("n")?.parse().map_err(|_| "n")?;
            let len: usize = f.get(3).ok_or("len")?.parse().map_err(|_| "len")?;
            let seed = f.get(4).ok_or("seed")?;
            let pay = gen_bytes(seed.as_bytes(), 0, len);
            let mut buf = vec![0_u8; len + 16];
            Ok(match t.write_message(n, &pay, &mut buf) {
                Ok(k) => format!("res=ok:{k} outd={}", dig(&buf[..core::cmp::min(k, buf.len())])),
                Err(e) => format!("res={}", errs(e)),
            })
        },
        "r" => {
            let t = party(f.get(1).ok_or("r party")?)?;
            let n: u64 = f.get(2).ok_or("n")?.parse().map_err(|_| "n")?;
            let reg = f.get(3).ok_or("reg")?;
            let msg = regs.get(*reg).ok_or_else(|| format!("noreg:{reg}"))?;
            let blen: usize = f.get(4).ok_or("buflen")?.parse().map_err(|_| "buflen")?;
            let mut buf = vec![0_u8; blen];
            Ok(match t.read_message(n, msg, &mut buf) {
                Ok(k) => format!("res=ok:{k} outd={}", dig(&buf[..core::cmp::min(k, buf.len())])),
                Err(e) => format!("res={}", errs(e)),
            })
        },
        "rt" => {
            let tw = party(f.get(1).ok_or("rt pw")?)?;
            let tr = party(f.get(2).ok_or("rt pr")?)?;
            let n: u64 = f.get(3).ok_or("n")?.parse().map_err(|_| "n")?;
            let len: usize = f.get(4).ok_or("len")?.parse().map_err(|_| "len")?;
            let seed = f.get(5).ok_or("seed")?;
            let pay = gen_bytes(seed.as_bytes(), 0, len);
            let mut buf = vec![0_u8; len + 16];
            match tw.write_message(n, &pay, &mut buf) {
                Ok(k) => {
                    let k = core::cmp::min(k, buf.len());
                    let mut out = vec![0_u8; len + 1];
                    match tr.read_message(n, &buf[..k], &mut out) {
                        Ok(j) => Ok(format!(
                            "res=ok:{k} outd={} rres=ok:{j} routd={}",
                            dig(&buf[..k]),
                            dig(&out[..core::cmp::min(j, out.len())])
                        )),
                        Err(e) => Ok(format!("res=ok:{k} outd={} rres={}", dig(&buf[..k]), errs(e))),
                    }
                },
                Err(e) => Ok(format!("res={}", errs(e))),
            }
        },
        _ => Err(format!("unknown conc op {}", f[0])),
    }
}

fn probe_one(r: &BoxedCryptoResolver, kind: &str, choice: &str) -> Result<Option<String>, String> {
    Ok(match kind {
        "rng" => r.resolve_rng().map(|mut g| {
            let mut b = [0_u8; 4];
            g.fill_bytes(&mut b);
            hex(&b)
        }),
        "dh" => r.resolve_dh(&choice.parse().map_err(|_| "choice")?).map(|o| o.name().to_string()),
        "cipher" => r.resolve_cipher(&choice.parse().map_err(|_| "choice")?).map(|o| o.name().to_string()),
        "hash" => r.resolve_hash(&choice.parse().map_err(|_| "choice")?).map(|o| o.name().to_string()),
        _ => return Err("kind".into()),
    })
}

pub fn probe(m: &Kv) -> Result<String, String> {
    let r = probe_resolver(m.get("r").ok_or("r=")?)?;
    if let Some(seq) = m.get("seq") {
        // several questions to ONE resolver instance, in order: `kind:choice;kind:choice;...`
        let mut ids = Vec::new();
        for q in seq.split(';') {
            let (kind, choice) = q.split_once(':').ok_or("seq item")?;
            ids.push(probe_one(&r, kind, choice)?.unwrap_or_else(|| "none".to_string()));
        }
        return Ok(format!("res=seq ids={}", ids.join(",")));
    }
    let kind = m.get("kind").copied().unwrap_or("");
    let choice = m.get("choice").copied().unwrap_or("");
    Ok(match probe_one(&r, kind, choice)? {
        Some(id) => format!("res=some id={id}"),
        None => "res=none".into(),
    })
}
