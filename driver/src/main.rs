//! vdriver: a deliberately dumb executor. Reads a line-oriented script, performs exactly the
//! public snow API calls it names, writes one event line per call (DESIGN.md 2.1, appendix A).
mod exec;
mod prim;
mod rec;
mod util;

use std::io::{BufWriter, Read, Write};

// compile-time trait monitors (C16): the repository's own test only covers `Send`
#[allow(dead_code)]
fn assert_traits() {
    fn send<T: Send>() {}
    fn sync<T: Sync>() {}
    send::<snow::HandshakeState>();
    send::<snow::TransportState>();
    send::<snow::StatelessTransportState>();
    sync::<snow::StatelessTransportState>();
}

fn main() {
    let args: Vec<String> = std::env::args().collect();
    if args.len() < 2 {
        eprintln!("usage: vdriver <script|-> [<log>]");
        std::process::exit(64);
    }
    let mut script = String::new();
    if args[1] == "-" {
        std::io::stdin().read_to_string(&mut script).expect("read stdin");
    } else {
        script = std::fs::read_to_string(&args[1]).expect("read script");
    }
    exec::install_panic_hook();
    let out: Box<dyn Write> = if args.len() >= 3 {
        Box::new(std::fs::File::create(&args[2]).expect("create log"))
    } else {
        Box::new(std::io::stdout())
    };
    let mut it = exec::Interp::new(BufWriter::with_capacity(1 << 16, out));
    let mut lines = script.lines();
    it.run(&mut lines);
}
