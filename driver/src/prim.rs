//! Direct ops that need no session: name parsing, resolver probing, primitive objects (C13, C18, C20).
use crate::exec::{eval_bytes, probe};
use crate::rec::base_resolver;
use crate::util::{enc_bytes, hex, hex_or_dash, sanitize};
use snow::params::{CipherChoice, DHChoice, HandshakeModifier, HashChoice, NoiseParams};
use std::collections::HashMap;

type Kv<'a> = HashMap<&'a str, &'a str>;
type Regs = HashMap<String, Vec<u8>>;

fn b(m: &Kv, k: &str, regs: &Regs) -> Result<Vec<u8>, String> {
    eval_bytes(m.get(k).copied().unwrap_or("-"), regs)
}

fn num<T: core::str::FromStr>(m: &Kv, k: &str) -> Result<T, String> {
    m.get(k).ok_or_else(|| format!("missing {k}"))?.parse::<T>().map_err(|_| format!("bad {k}"))
}

pub fn exec_direct(op: &str, m: &Kv, _flags: &[&str], regs: &Regs) -> Result<String, String> {
    match op {
        "parse" => {
            let raw = b(m, "name", regs)?;
            let Ok(name) = String::from_utf8(raw) else {
                return Ok("res=skipped:notutf8".into());
            };
            Ok(match name.parse::<NoiseParams>() {
                Ok(p) => {
                    let mods: Vec<String> = p
                        .handshake
                        .modifiers
                        .list
                        .iter()
                        .map(|x| match x {
                            HandshakeModifier::Psk(n) => format!("psk{n}"),
                            HandshakeModifier::Fallback => "fallback".to_string(),
                            #[cfg(feature = "hfs")]
                            HandshakeModifier::Hfs => "hfs".to_string(),
                        })
                        .collect();
                    #[cfg(feature = "hfs")]
                    let kem = format!(" kem={}", p.kem.map_or("none".to_string(), |k| format!("{k:?}")));
                    #[cfg(not(feature = "hfs"))]
                    let kem = String::new();
                    format!(
                        "res=ok base={:?} pattern={} mods={} dh={:?} cipher={:?} hash={:?}{} name={}",
                        p.base,
                        p.handshake.pattern.as_str(),
                        if mods.is_empty() { "-".to_string() } else { mods.join(",") },
                        p.dh,
                        p.cipher,
                        p.hash,
                        kem,
                        hex_or_dash(p.name.as_bytes())
                    )
                },
                Err(e) => format!("res=err:{}", sanitize(&format!("{e:?}"))),
            })
        },
        "resolve_probe" => probe(m),
        _ => prim(op, m, regs),
    }
}

fn prim(op: &str, m: &Kv, regs: &Regs) -> Result<String, String> {
    let (r, _) = base_resolver(m.get("res").copied().unwrap_or("D"))?;
    let choice = m.get("choice").copied().unwrap_or("");
    match op {
        "prim_hash" | "prim_hmac" | "prim_hkdf" => {
            let hc: HashChoice = choice.parse().map_err(|_| "hash choice")?;
            let Some(mut h) = r.resolve_hash(&hc) else {
                return Ok("res=none".into());
            };
            let hl = h.hash_len();
            match op {
                "prim_hash" => {
                    let data = b(m, "data", regs)?;
                    // chunks=a,b,c : sizes of successive input() calls (rest in one call)
                    let mut out = [0_u8; 64];
                    h.reset();
                    let mut off = 0;
                    if let Some(ch) = m.get("chunks") {
                        for c in ch.split(',') {
                            let n: usize = c.parse().map_err(|_| "chunk")?;
                            let n = core::cmp::min(n, data.len() - off);
                            h.input(&data[off..off + n]);
                            off += n;
                        }
                    }
                    h.input(&data[off..]);
                    h.result(&mut out);
                    Ok(format!("res=ok out={} hl={} bl={} nm={}", hex(&out[..hl]), hl, h.block_len(), h.name()))
                },
                "prim_hmac" => {
                    let key = b(m, "key", regs)?;
                    let data = b(m, "data", regs)?;
                    let mut out = [0_u8; 64];
                    if m.contains_key("pre") {
                        // stale pending input on the same object: hmac() is documented to clobber it
                        h.input(&b(m, "pre", regs)?);
                    }
                    h.hmac(&key, &data, &mut out);
                    Ok(format!("res=ok out={}", hex(&out[..hl])))
                },
                _ => {
                    let ck = b(m, "ck", regs)?;
                    let ikm = b(m, "ikm", regs)?;
                    let n: usize = num(m, "n")?;
                    let (mut o1, mut o2, mut o3) = ([0_u8; 64], [0_u8; 64], [0_u8; 64]);
                    if m.contains_key("pre") {
                        h.input(&b(m, "pre", regs)?);
                    }
                    h.hkdf(&ck, &ikm, n, &mut o1, &mut o2, &mut o3);
                    Ok(format!("res=ok out1={} out2={} out3={}", hex(&o1[..hl]), hex(&o2[..hl]), hex(&o3[..hl])))
                },
            }
        },
        "prim_enc" | "prim_dec" | "prim_rekey" => {
            let cc: CipherChoice = choice.parse().map_err(|_| "cipher choice")?;
            let Some(mut c) = r.resolve_cipher(&cc) else {
                return Ok("res=none".into());
            };
            let key = b(m, "key", regs)?;
            let mut k = [0_u8; 32];
            if key.len() != 32 {
                return Err("key len".into());
            }
            k.copy_from_slice(&key);
            if m.contains_key("key0") {
                // an earlier key on the same object: set() must replace it completely
                let k0 = b(m, "key0", regs)?;
                if k0.len() == 32 {
                    let mut kk = [0_u8; 32];
                    kk.copy_from_slice(&k0);
                    c.set(&kk);
                }
            }
            c.set(&k);
            match op {
                "prim_enc" => {
                    let n: u64 = num(m, "n")?;
                    let ad = b(m, "ad", regs)?;
                    let pt = b(m, "pt", regs)?;
                    let extra: usize = m.get("slack").and_then(|x| x.parse().ok()).unwrap_or(0);
                    let mut out = vec![0x5A_u8; pt.len() + 16 + extra];
                    let l = c.encrypt(n, &ad, &pt, &mut out);
                    Ok(format!("res=ok:{l} out={} nm={}", enc_bytes(&out[..core::cmp::min(l, out.len())]), c.name()))
                },
                "prim_dec" => {
                    let n: u64 = num(m, "n")?;
                    let ad = b(m, "ad", regs)?;
                    let ct = b(m, "ct", regs)?;
                    let blen: usize = num(m, "buf")?;
                    let mut out = vec![0x5A_u8; blen];
                    Ok(match c.decrypt(n, &ad, &ct, &mut out) {
                        Ok(l) => format!("res=ok:{l} out={}", enc_bytes(&out[..core::cmp::min(l, out.len())])),
                        Err(e) => format!("res=err:{}", sanitize(&format!("{e:?}"))),
                    })
                },
                _ => {
                    let times: usize = m.get("times").and_then(|x| x.parse().ok()).unwrap_or(1);
                    for _ in 0..times {
                        c.rekey();
                    }
                    let n: u64 = m.get("n").and_then(|x| x.parse().ok()).unwrap_or(0);
                    let pt = b(m, "pt", regs)?;
                    let mut out = vec![0_u8; pt.len() + 16];
                    let l = c.encrypt(n, &[], &pt, &mut out);
                    Ok(format!("res=ok:{l} out={}", enc_bytes(&out[..core::cmp::min(l, out.len())])))
                },
            }
        },
        "prim_dhpub" | "prim_dh" | "prim_dhgen" => {
            let dc: DHChoice = choice.parse().map_err(|_| "dh choice")?;
            let Some(mut d) = r.resolve_dh(&dc) else {
                return Ok("res=none".into());
            };
            match op {
                "prim_dhpub" => {
                    d.set(&b(m, "priv", regs)?);
                    Ok(format!(
                        "res=ok pub={} priv={} pl={} sl={} dl={} nm={}",
                        hex(d.pubkey()),
                        hex(d.privkey()),
                        d.pub_len(),
                        d.priv_len(),
                        d.dh_len(),
                        d.name()
                    ))
                },
                "prim_dh" => {
                    d.set(&b(m, "priv", regs)?);
                    let pk = b(m, "pub", regs)?;
                    let mut out = [0_u8; 80];
                    Ok(match d.dh(&pk, &mut out) {
                        Ok(()) => format!("res=ok out={}", hex(&out[..d.dh_len()])),
                        Err(e) => format!("res=err:{}", sanitize(&format!("{e:?}"))),
                    })
                },
                _ => {
                    let Some(mut rng) = r.resolve_rng() else {
                        return Ok("res=none".into());
                    };
                    let count: usize = m.get("count").and_then(|x| x.parse().ok()).unwrap_or(1);
                    let mut s = String::from("res=ok pairs=");
                    for i in 0..count {
                        d.generate(&mut *rng);
                        if i > 0 {
                            s.push(',');
                        }
                        s.push_str(&hex(d.privkey()));
                        s.push('/');
                        s.push_str(&hex(d.pubkey()));
                    }
                    Ok(s)
                },
            }
        },
        _ => Err(format!("unknown op {op}")),
    }
}
