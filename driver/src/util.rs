//! Byte helpers shared by the driver: hex, deterministic generator, digests.
use sha2::{Digest, Sha256};

pub const BIG: usize = 2048;

pub fn hex(b: &[u8]) -> String {
    const T: &[u8; 16] = b"0123456789abcdef";
    let mut s = String::with_capacity(b.len() * 2);
    for &x in b {
        s.push(T[(x >> 4) as usize] as char);
        s.push(T[(x & 15) as usize] as char);
    }
    s
}

pub fn hex_or_dash(b: &[u8]) -> String {
    if b.is_empty() {
        "-".to_string()
    } else {
        hex(b)
    }
}

pub fn unhex(s: &str) -> Result<Vec<u8>, String> {
    if s == "-" {
        return Ok(Vec::new());
    }
    let b = s.as_bytes();
    if b.len() % 2 != 0 {
        return Err(format!("odd hex length {}", b.len()));
    }
    let mut v = Vec::with_capacity(b.len() / 2);
    let val = |c: u8| -> Result<u8, String> {
        match c {
            b'0'..=b'9' => Ok(c - b'0'),
            b'a'..=b'f' => Ok(c - b'a' + 10),
            b'A'..=b'F' => Ok(c - b'A' + 10),
            _ => Err(format!("bad hex char {c}")),
        }
    };
    for i in (0..b.len()).step_by(2) {
        v.push(val(b[i])? << 4 | val(b[i + 1])?);
    }
    Ok(v)
}

pub fn sha256(b: &[u8]) -> [u8; 32] {
    let mut h = Sha256::new();
    h.update(b);
    h.finalize().into()
}

/// Deterministic stream: block i = SHA256(seed || i as le64). Returns bytes [off, off+len).
pub fn gen_bytes(seed: &[u8], off: u64, len: usize) -> Vec<u8> {
    let mut out = Vec::with_capacity(len);
    if len == 0 {
        return out;
    }
    let mut blk = off / 32;
    let mut skip = (off % 32) as usize;
    while out.len() < len {
        let mut h = Sha256::new();
        h.update(seed);
        h.update(blk.to_le_bytes());
        let d: [u8; 32] = h.finalize().into();
        let take = core::cmp::min(32 - skip, len - out.len());
        out.extend_from_slice(&d[skip..skip + take]);
        skip = 0;
        blk += 1;
    }
    out
}

/// Full hex for short strings, `big:<len>:<sha256>:<head16>:<tail16>` for long ones, `-` for empty.
pub fn enc_bytes(b: &[u8]) -> String {
    if b.is_empty() {
        "-".to_string()
    } else if b.len() <= BIG {
        hex(b)
    } else {
        format!(
            "big:{}:{}:{}:{}",
            b.len(),
            hex(&sha256(b)),
            hex(&b[..16]),
            hex(&b[b.len() - 16..])
        )
    }
}

/// `<len>:<first 8 bytes of sha256>`
pub fn dig(b: &[u8]) -> String {
    format!("{}:{}", b.len(), hex(&sha256(b)[..8]))
}

pub fn sanitize(s: &str) -> String {
    s.chars()
        .map(|c| if c.is_ascii_graphic() { c } else { '_' })
        .collect()
}
