"""Handshake pattern table (Noise rev 34, sections 7.4-7.6), psk modifiers (9), name grammar (8),
and message field layout. Transcribed from the specification text in its own notation."""
import re

_SPEC = """
N:
  <- s
  ...
  -> e, es
K:
  -> s
  <- s
  ...
  -> e, es, ss
X:
  <- s
  ...
  -> e, es, s, ss
NN:
  -> e
  <- e, ee
NK:
  <- s
  ...
  -> e, es
  <- e, ee
NX:
  -> e
  <- e, ee, s, es
XN:
  -> e
  <- e, ee
  -> s, se
XK:
  <- s
  ...
  -> e, es
  <- e, ee
  -> s, se
XX:
  -> e
  <- e, ee, s, es
  -> s, se
KN:
  -> s
  ...
  -> e
  <- e, ee, se
KK:
  -> s
  <- s
  ...
  -> e, es, ss
  <- e, ee, se
KX:
  -> s
  ...
  -> e
  <- e, ee, se, s, es
IN:
  -> e, s
  <- e, ee, se
IK:
  <- s
  ...
  -> e, es, s, ss
  <- e, ee, se
IX:
  -> e, s
  <- e, ee, se, s, es
NK1:
  <- s
  ...
  -> e
  <- e, ee, es
NX1:
  -> e
  <- e, ee, s
  -> es
X1N:
  -> e
  <- e, ee
  -> s
  <- se
X1K:
  <- s
  ...
  -> e, es
  <- e, ee
  -> s
  <- se
XK1:
  <- s
  ...
  -> e
  <- e, ee, es
  -> s, se
X1K1:
  <- s
  ...
  -> e
  <- e, ee, es
  -> s
  <- se
X1X:
  -> e
  <- e, ee, s, es
  -> s
  <- se
XX1:
  -> e
  <- e, ee, s
  -> es, s, se
X1X1:
  -> e
  <- e, ee, s
  -> es, s
  <- se
K1N:
  -> s
  ...
  -> e
  <- e, ee
  -> se
K1K:
  -> s
  <- s
  ...
  -> e, es
  <- e, ee
  -> se
KK1:
  -> s
  <- s
  ...
  -> e
  <- e, ee, se, es
K1K1:
  -> s
  <- s
  ...
  -> e
  <- e, ee, es
  -> se
K1X:
  -> s
  ...
  -> e
  <- e, ee, s, es
  -> se
KX1:
  -> s
  ...
  -> e
  <- e, ee, se, s
  -> es
K1X1:
  -> s
  ...
  -> e
  <- e, ee, s
  -> se, es
I1N:
  -> e, s
  <- e, ee
  -> se
I1K:
  <- s
  ...
  -> e, es, s
  <- e, ee
  -> se
IK1:
  <- s
  ...
  -> e, s
  <- e, ee, se, es
I1K1:
  <- s
  ...
  -> e, s
  <- e, ee, es
  -> se
I1X:
  -> e, s
  <- e, ee, s, es
  -> se
IX1:
  -> e, s
  <- e, ee, se, s
  -> es
I1X1:
  -> e, s
  <- e, ee, s
  -> se, es
"""


def _parse_spec():
    pats = {}
    cur = None
    for line in _SPEC.splitlines():
        line = line.strip()
        if not line:
            continue
        if line.endswith(":"):
            cur = line[:-1]
            pats[cur] = {"pre_i": [], "pre_r": [], "msgs": [], "_lines": []}
            continue
        pats[cur]["_lines"].append(line)
    for name, p in pats.items():
        lines = p.pop("_lines")
        if "..." in lines:
            k = lines.index("...")
            pre, msgs = lines[:k], lines[k + 1:]
        else:
            pre, msgs = [], lines
        for l in pre:
            toks = [t.strip() for t in l[2:].split(",")]
            (p["pre_i"] if l.startswith("->") else p["pre_r"]).extend(toks)
        exp = "->"
        for l in msgs:
            assert l.startswith(exp), (name, l)
            p["msgs"].append([t.strip() for t in l[2:].split(",")])
            exp = "<-" if exp == "->" else "->"
    return pats


PATTERNS = _parse_spec()
PATTERN_NAMES = list(PATTERNS.keys())
assert len(PATTERN_NAMES) == 38
ONEWAY = ("N", "K", "X")

DHS = ("25519", "P256")
DHS_PARSE_ONLY = ("448",)  # a name with 448 parses; no built-in resolver provides the DH
CIPHERS = ("ChaChaPoly", "AESGCM", "XChaChaPoly")
HASHES = ("SHA256", "SHA512", "BLAKE2s", "BLAKE2b")


def tokens_for(pattern, psks=()):
    """message token lists with psk modifiers applied in the order given (spec 9.4)."""
    base = PATTERNS[pattern]
    msgs = [list(m) for m in base["msgs"]]
    for n in psks:
        if n == 0:
            msgs[0].insert(0, "psk")
        else:
            if n > len(msgs):
                raise ValueError("psk%d beyond the pattern's messages" % n)
            msgs[n - 1].append("psk")
    return msgs


def valid_psk_sets(pattern):
    n = len(PATTERNS[pattern]["msgs"])
    out = []
    for mask in range(1 << (n + 1)):
        out.append(tuple(i for i in range(n + 1) if mask >> i & 1))
    return out


def make_name(pattern, psks, dh, cipher, hash_):
    mods = "+".join("psk%d" % n for n in psks)
    return "Noise_%s%s_%s_%s_%s" % (pattern, mods, dh, cipher, hash_)


_NAME_RE = re.compile(r"^Noise_([A-Z][A-Z0-9]*)((?:[a-z][a-z0-9]*)(?:\+[a-z][a-z0-9]*)*)?_([A-Za-z0-9]+)_([A-Za-z0-9]+)_([A-Za-z0-9]+)$")


class Parsed:
    __slots__ = ("name", "pattern", "psks", "mods", "dh", "cipher", "hash")

    def __init__(self, name, pattern, mods, dh, cipher, hash_):
        self.name = name
        self.pattern = pattern
        self.mods = mods
        self.psks = tuple(int(m[3:]) for m in mods if m.startswith("psk"))
        self.dh = dh
        self.cipher = cipher
        self.hash = hash_

    @property
    def is_psk(self):
        return len(self.psks) > 0

    @property
    def nmsgs(self):
        return len(PATTERNS[self.pattern]["msgs"])

    @property
    def oneway(self):
        return self.pattern in ONEWAY


def parse_name_simple(name):
    """Parse a *valid generated* name (no grammar judgement; see grammar.py for C13)."""
    m = _NAME_RE.match(name)
    if not m:
        raise ValueError("not a name: %r" % name)
    pat, mods, dh, ci, ha = m.groups()
    mods = mods.split("+") if mods else []
    return Parsed(name, pat, mods, dh, ci, ha)


def all_variants():
    """every (pattern, psk subset) - 556 handshake variants"""
    for p in PATTERN_NAMES:
        for ps in valid_psk_sets(p):
            yield p, ps


def all_names(dhs=DHS, ciphers=CIPHERS, hashes=HASHES):
    for p, ps in all_variants():
        for d in dhs:
            for c in ciphers:
                for h in hashes:
                    yield make_name(p, ps, d, c, h)


# ------------------------------------------------------------------ static facts derived from tokens


def needs_local_static(pattern, initiator):
    """does the role's own static key occur in a pre-message or message of the pattern?"""
    p = PATTERNS[pattern]
    if "s" in (p["pre_i"] if initiator else p["pre_r"]):
        return True
    for i, m in enumerate(p["msgs"]):
        sender_is_initiator = (i % 2 == 0)
        if sender_is_initiator == initiator and "s" in m:
            return True
    return False


def needs_remote_static(pattern, initiator):
    """is the peer's static key a pre-message (so it must be supplied)?"""
    p = PATTERNS[pattern]
    return "s" in (p["pre_r"] if initiator else p["pre_i"])


def receives_static_at(pattern, initiator):
    """index of the message in which this role reads the peer's `s`, or None"""
    p = PATTERNS[pattern]
    for i, m in enumerate(p["msgs"]):
        sender_is_initiator = (i % 2 == 0)
        if sender_is_initiator != initiator and "s" in m:
            return i
    return None


class Field:
    __slots__ = ("kind", "off", "len", "enc")

    def __init__(self, kind, off, length, enc):
        self.kind, self.off, self.len, self.enc = kind, off, length, enc

    def __repr__(self):
        return "%s@%d+%d%s" % (self.kind, self.off, self.len, "E" if self.enc else "")


def layout(pattern, psks, dhlen):
    """Per message: (fields, has_key_at_payload). Field lengths include the 16-byte tag when
    encrypted. The payload field is not included (its length is variable)."""
    msgs = tokens_for(pattern, psks)
    is_psk = len(psks) > 0
    has_key = False
    out = []
    for toks in msgs:
        off = 0
        fields = []
        for t in toks:
            if t == "e":
                fields.append(Field("e", off, dhlen, False))
                off += dhlen
                if is_psk:
                    has_key = True
            elif t == "s":
                ln = dhlen + (16 if has_key else 0)
                fields.append(Field("s", off, ln, has_key))
                off += ln
            else:  # dh tokens and psk all call MixKey / MixKeyAndHash
                has_key = True
        out.append((fields, has_key, off))
    return out


def overhead(pattern, psks, dhlen):
    """per message: fixed bytes (keys + their tags + payload tag)"""
    return [off + (16 if hk else 0) for (_f, hk, off) in layout(pattern, psks, dhlen)]
