"""Oracle self-tests: standards' test vectors for every primitive, pure-vs-accelerated agreement,
and the third-party cacophony vectors (Haskell implementation) for the spec transcription."""
import hashlib
import hmac as pyhmac
import json
import os
import random
import sys

from . import model, prims
from .patterns import parse_name_simple

H = bytes.fromhex


def prim_vectors():
    """returns list of (name, ok)"""
    r = []

    def chk(name, cond):
        r.append((name, bool(cond)))

    # RFC 8439 2.8.2 AEAD_CHACHA20_POLY1305
    key = H("808182838485868788898a8b8c8d8e8f909192939495969798999a9b9c9d9e9f")
    nonce = H("070000004041424344454647")
    ad = H("50515253c0c1c2c3c4c5c6c7")
    pt = b"Ladies and Gentlemen of the class of '99: If I could offer you only one tip for the future, sunscreen would be it."
    exp = H(
        "d31a8d34648e60db7b86afbc53ef7ec2a4aded51296e08fea9e2b5a736ee62d63dbea45e8ca9671282fafb69da92728b1a71de0a9e060b2905d6a5b67ecd3b3692ddbd7f2d778b8c9803aee328091b58fab324e4fad675945585808b4831d7bc3ff4def08e4b7a9de576d26586cec64b6116"
        "1ae10b594f09e26a7e902ecbd0600691"
    )
    chk("rfc8439-2.8.2-enc", prims.pure_chachapoly_encrypt(key, nonce, ad, pt) == exp)
    chk("rfc8439-2.8.2-dec", prims.pure_chachapoly_decrypt(key, nonce, ad, exp) == pt)
    bad = bytearray(exp)
    bad[5] ^= 1
    chk("rfc8439-2.8.2-reject", prims.pure_chachapoly_decrypt(key, nonce, ad, bytes(bad)) is None)
    # RFC 8439 2.5.2 Poly1305
    chk(
        "rfc8439-2.5.2-poly1305",
        prims.poly1305(H("85d6be7857556d337f4452fe42d506a80103808afb0db2fd4abff6af4149f51b"), b"Cryptographic Forum Research Group")
        == H("a8061dc1305136c6c22b8baf0c0127a9"),
    )
    # draft-irtf-cfrg-xchacha-03 A.3.1
    xkey = H("808182838485868788898a8b8c8d8e8f909192939495969798999a9b9c9d9e9f")
    xnonce = H("404142434445464748494a4b4c4d4e4f5051525354555657")
    xexp = H(
        "bd6d179d3e83d43b9576579493c0e939572a1700252bfaccbed2902c21396cbb731c7f1b0b4aa6440bf3a82f4eda7e39ae64c6708c54c216cb96b72e1213b4522f8c9ba40db5d945b11b69b982c1bb9e3f3fac2bc369488f76b2383565d3fff921f9664c97637da9768812f615c68b13b52e"
        "c0875924c1c7987947deafd8780acf49"
    )
    chk("xchacha-A.3.1-enc", prims.pure_xchachapoly_encrypt(xkey, xnonce, ad, pt) == xexp)
    chk("xchacha-A.3.1-dec", prims.pure_xchachapoly_decrypt(xkey, xnonce, ad, xexp) == pt)
    chk(
        "hchacha20-2.2.1",
        prims.hchacha20(H("000102030405060708090a0b0c0d0e0f101112131415161718191a1b1c1d1e1f"), H("000000090000004a0000000031415927"))
        == H("82413b4227b27bfed30e42508a877d73a0f9e4d58a74a853c12ec41326d3ecdc"),
    )
    # FIPS 197 C.3 AES-256
    rk = prims.aes256_expand(H("000102030405060708090a0b0c0d0e0f101112131415161718191a1b1c1d1e1f"))
    chk("fips197-C.3", prims.aes256_encrypt_block(rk, H("00112233445566778899aabbccddeeff")) == H("8ea2b7ca516745bfeafc49904b496089"))
    # GCM spec (McGrew-Viega) test cases 13-16 (AES-256)
    z32 = b"\x00" * 32
    chk("gcm-tc13", prims.pure_aesgcm_encrypt(z32, b"\x00" * 12, b"", b"") == H("530f8afbc74536b9a963b4f1c4cb738b"))
    chk(
        "gcm-tc14",
        prims.pure_aesgcm_encrypt(z32, b"\x00" * 12, b"", b"\x00" * 16) == H("cea7403d4d606b6e074ec5d3baf39d18" "d0d1c8a799996bf0265b98b5d48ab919"),
    )
    k15 = H("feffe9928665731c6d6a8f9467308308feffe9928665731c6d6a8f9467308308")
    iv15 = H("cafebabefacedbaddecaf888")
    p15 = H(
        "d9313225f88406e5a55909c5aff5269a86a7a9531534f7da2e4c303d8a318a721c3c0c95956809532fcf0e2449a6b525b16aedf5aa0de657ba637b391aafd255"
    )
    c15 = H(
        "522dc1f099567d07f47f37a32a84427d643a8cdcbfe5c0c97598a2bd2555d1aa8cb08e48590dbb3da7b08b1056828838c5f61e6393ba7a0abcc9f662898015ad"
    )
    chk("gcm-tc15", prims.pure_aesgcm_encrypt(k15, iv15, b"", p15) == c15 + H("b094dac5d93471bdec1a502270e3cc6c"))
    a16 = H("feedfacedeadbeeffeedfacedeadbeefabaddad2")
    chk(
        "gcm-tc16",
        prims.pure_aesgcm_encrypt(k15, iv15, a16, p15[:60]) == c15[:60] + H("76fc6ece0f4e1768cddf8853bb2d551b"),
    )
    chk("gcm-tc16-dec", prims.pure_aesgcm_decrypt(k15, iv15, a16, c15[:60] + H("76fc6ece0f4e1768cddf8853bb2d551b")) == p15[:60])
    chk("gcm-tc16-reject", prims.pure_aesgcm_decrypt(k15, iv15, a16, c15[:60] + H("76fc6ece0f4e1768cddf8853bb2d551c")) is None)
    # RFC 7748 5.2 and 6.1
    chk(
        "rfc7748-5.2-1",
        prims.pure_x25519(H("a546e36bf0527c9d3b16154b82465edd62144c0ac1fc5a18506a2244ba449ac4"), H("e6db6867583030db3594c1a424b15f7c726624ec26b3353b10a903a6d0ab1c4c"))
        == H("c3da55379de9c6908e94ea4df28d084f32eccf03491c71f754b4075577a28552"),
    )
    chk(
        "rfc7748-5.2-2",
        prims.pure_x25519(H("4b66e9d4d1b4673c5ad22691957d6af5c11b6421e0ea01d42ca4169e7918ba0d"), H("e5210f12786811d3f4b7959d0538ae2c31dbe7106fc03c3efc4cd549c715a493"))
        == H("95cbde9476e8907d7aade45cb4b873f88b595a68799fa152e6f8f7647aac7957"),
    )
    a = H("77076d0a7318a57d3c16c17251b26645df4c2f87ebc0992ab177fba51db92c2a")
    b = H("5dab087e624a8a4b79e17f8b83800ee66f3bb1292618b6fd1c2f8b27ff88e0eb")
    chk("rfc7748-6.1-pubA", prims.dh_pub("25519", a, pure=True) == H("8520f0098930a754748b7ddcb43ef75a0dbf3a0d26381af4eba4a98eaa9b4e6a"))
    chk("rfc7748-6.1-pubB", prims.dh_pub("25519", b, pure=True) == H("de9edb7d7b7dc1b4d35b61c2ece435373f8343c85b78674dadfc7e146f882b4f"))
    chk(
        "rfc7748-6.1-shared",
        prims.dh_calc("25519", a, H("de9edb7d7b7dc1b4d35b61c2ece435373f8343c85b78674dadfc7e146f882b4f"), pure=True)
        == H("4a5d9d5ba4ce2de1728e3bf480350f25e07e21c947d19e3376f09b3c1e161742"),
    )
    # RFC 5903 8.1 (256-bit random ECP group)
    i = H("C88F01F510D9AC3F70A292DAA2316DE544E9AAB8AFE84049C62A9C57862D1433")
    gix = H("DAD0B65394221CF9B051E1FECA5787D098DFE637FC90B9EF945D0C3772581180")
    giy = H("5271A0461CDB8252D61F1C456FA3E59AB1F45B33ACCF5F58389E0577B8990BB3")
    r_ = H("C6EF9C5D78AE012A011164ACB397CE2088685D8F06BF9BE0B283AB46476BEE53")
    grx = H("D12DFB5289C8D4F81208B70270398C342296970A0BCCB74C736FC7554494BF63")
    gry = H("56FBF3CA366CC23E8157854C13C58D6AAC23F046ADA30F8353E74F33039872AB")
    zx = H("D6840F6B42F6EDAFD13116E0E12565202FEF8E9ECE7DCE03812464D04B9442DE")
    chk("rfc5903-8.1-pub", prims.dh_pub("P256", i, pure=True) == b"\x04" + gix + giy)
    chk("rfc5903-8.1-dh", prims.dh_calc("P256", i, b"\x04" + grx + gry, pure=True) == zx)
    chk("rfc5903-8.1-dh-sym", prims.dh_calc("P256", r_, b"\x04" + gix + giy, pure=True) == zx)
    offc = bytearray(b"\x04" + grx + gry)
    offc[40] ^= 1
    chk("p256-offcurve-rejected", prims.dh_calc("P256", i, bytes(offc), pure=True) is None)
    # RFC 4231 test cases 1, 2 (HMAC-SHA-256 / 512), own HMAC vs Python's for all four
    chk("rfc4231-1-256", prims.hmac_hash("SHA256", b"\x0b" * 20, b"Hi There") == H("b0344c61d8db38535ca8afceaf0bf12b881dc200c9833da726e9376c2e32cff7"))
    chk(
        "rfc4231-2-512",
        prims.hmac_hash("SHA512", b"Jefe", b"what do ya want for nothing?")
        == H("164b7a7bfcf819e2e395fbe73b56e0a387bd64222e831fd610270cd7ea2505549758bf75c05a994a6d034f65f8f0e6fdcaeab1a34d4a6b4b636e070a38bce737"),
    )
    rnd = random.Random(7)
    for hn, fn in (("SHA256", hashlib.sha256), ("SHA512", hashlib.sha512), ("BLAKE2s", hashlib.blake2s), ("BLAKE2b", hashlib.blake2b)):
        ok = True
        for _ in range(20):
            k = rnd.randbytes(rnd.randrange(0, prims.blocklen(hn) + 1))
            d = rnd.randbytes(rnd.randrange(0, 300))
            ok &= prims.hmac_hash(hn, k, d) == pyhmac.new(k, d, fn).digest()
        chk("hmac-vs-python-" + hn, ok)
    # RFC 5869 relation: Noise HKDF = HKDF-Extract/Expand with empty info (check with test case 3 of RFC 5869:
    # IKM=0x0b*22, salt empty, info empty -> OKM first 32 bytes); Noise passes ck as salt.
    okm = H("8da4e775a563c18f715f802a063c5a31b8a11f5c5ee1879ec3454e5f3c738d2d")
    chk("rfc5869-3", prims.hkdf("SHA256", b"", b"\x0b" * 22, 1)[0] == okm)
    return r


def accel_selftest(n=40, seed=1):
    """Enable each accelerator iff it agrees with the pure implementation on random inputs."""
    rnd = random.Random(seed)
    res = {}
    A = prims.ACCEL
    lens = [0, 1, 15, 16, 17, 63, 64, 65, 255, 1000]

    def aead_ok(cipher, flag):
        try:
            for i in range(n):
                k = rnd.randbytes(32)
                nn = rnd.choice([0, 1, 2**32 - 1, 2**32, 2**63, 2**64 - 1, rnd.getrandbits(64)])
                ad = rnd.randbytes(rnd.choice(lens))
                pt = rnd.randbytes(rnd.choice(lens))
                A.enabled[flag] = False
                c0 = prims.aead_encrypt(cipher, k, nn, ad, pt)
                A.enabled[flag] = True
                c1 = prims.aead_encrypt(cipher, k, nn, ad, pt)
                if c0 != c1 or prims.aead_decrypt(cipher, k, nn, ad, c1) != pt:
                    return False
                bad = bytearray(c1)
                bad[rnd.randrange(len(bad))] ^= 1 << rnd.randrange(8)
                if prims.aead_decrypt(cipher, k, nn, ad, bytes(bad)) is not None:
                    return False
                if prims.aead_decrypt(cipher, k, nn ^ 1, ad, c1) is not None:
                    return False
            return True
        except Exception as e:
            A.notes.append("%s accel self-test error: %r" % (cipher, e))
            return False

    if A.crypto is not None:
        for cipher, flag in (("ChaChaPoly", "chachapoly"), ("AESGCM", "aesgcm")):
            ok = aead_ok(cipher, flag)
            A.enabled[flag] = ok
            res[flag] = ok
    if A.sodium is not None:
        ok = aead_ok("XChaChaPoly", "xchachapoly")
        A.enabled["xchachapoly"] = ok
        res["xchachapoly"] = ok
        try:
            ok = True
            for i in range(n):
                k = rnd.randbytes(32)
                u = rnd.randbytes(32)
                if i == 0:
                    u = b"\x00" * 32
                if i == 1:
                    u = (2**255 - 19 + 3).to_bytes(32, "little")  # non-canonical
                if i == 2:
                    u = b"\xff" * 32
                ok &= A.x25519(k, u) == prims.pure_x25519(k, u)
                ok &= A.x25519_base(k) == prims.pure_x25519(k, prims._BASE25519)
            A.enabled["x25519"] = ok
            res["x25519"] = ok
        except Exception as e:
            A.notes.append("x25519 accel error %r" % (e,))
            res["x25519"] = False
    if A.crypto is not None:
        try:
            ok = True
            for i in range(max(6, n // 4)):
                k = rnd.randbytes(32)
                k2 = rnd.randbytes(32)
                pub = prims.pure_p256_pub(k2)
                ok &= A.p256_mul(k, None) == prims.pure_p256_pub(k)
                e = A.p256_mul(k, pub)
                ok &= (e[1:33] if e else None) == prims.pure_p256_dh(k, pub)
                bad = bytearray(pub)
                bad[1 + rnd.randrange(64)] ^= 1 << rnd.randrange(8)
                e = A.p256_mul(k, bytes(bad))
                ok &= (e[1:33] if e else None) == prims.pure_p256_dh(k, bytes(bad))
            ok &= A.p256_mul(b"\x00" * 32, None) is None
            ok &= A.p256_mul(b"\xff" * 32, None) is None
            A.enabled["p256"] = ok
            res["p256"] = ok
        except Exception as e:
            A.notes.append("p256 accel error %r" % (e,))
            res["p256"] = False
    return res


def cacophony_vectors(path="/repo/tests/vectors/cacophony.txt", limit=None, only_dh=("25519",)):
    """Replay the third-party vectors through the model. returns (n_checked, failures[list of str])"""
    vs = json.load(open(path))["vectors"]
    n = 0
    fails = []
    for v in vs:
        name = v["protocol_name"]
        try:
            p = parse_name_simple(name)
        except ValueError:
            continue
        if p.dh not in only_dh or p.cipher not in ("ChaChaPoly", "AESGCM", "XChaChaPoly"):
            continue
        if limit and n >= limit:
            break
        n += 1
        try:
            err = _run_vector(v, p)
        except model.Reject as e:
            err = "model rejected: %s" % (e,)
        if err:
            fails.append("%s: %s" % (name, err))
    return n, fails


def _run_vector(v, p):
    g = lambda k: H(v[k]) if k in v else None
    ipsk = {n: H(x) for n, x in zip(p.psks, v.get("init_psks", []))}
    rpsk = {n: H(x) for n, x in zip(p.psks, v.get("resp_psks", []))}
    ini = model.HandshakeState(p.name, True, s=g("init_static"), rs=g("init_remote_static"), psks=ipsk, prologue=g("init_prologue") or b"", parsed=p)
    res = model.HandshakeState(p.name, False, s=g("resp_static"), rs=g("resp_remote_static"), psks=rpsk, prologue=g("resp_prologue") or b"", parsed=p)
    ie, re_ = g("init_ephemeral"), g("resp_ephemeral")
    msgs = v["messages"]
    i = 0
    while not ini.finished:
        m = msgs[i]
        snd, rcv, e = (ini, res, ie) if i % 2 == 0 else (res, ini, re_)
        ct = snd.write_message(H(m["payload"]), e)
        if ct != H(m["ciphertext"]):
            return "handshake message %d differs" % i
        if rcv.read_message(ct) != H(m["payload"]):
            return "handshake payload %d differs" % i
        i += 1
    if not res.finished:
        return "responder not finished"
    if "handshake_hash" in v and ini.h != H(v["handshake_hash"]):
        return "handshake hash differs"
    if ini.h != res.h:
        return "hash mismatch between parties"
    ti, tr = model.Transport(ini), model.Transport(res)
    for j in range(i, len(msgs)):
        m = msgs[j]
        snd, rcv = (ti, tr) if (p.oneway or j % 2 == 0) else (tr, ti)
        ct = snd.tx.encrypt_with_ad(b"", H(m["payload"]))
        if ct != H(m["ciphertext"]):
            return "transport message %d differs" % j
        if rcv.rx.decrypt_with_ad(b"", ct) != H(m["payload"]):
            return "transport payload %d differs" % j
    return None


def run_all(verbose=False, vectors=True):
    out = {"prim_vectors": None, "accel": None, "cacophony": None, "notes": prims.ACCEL.notes}
    pv = prim_vectors()
    out["prim_vectors"] = {"n": len(pv), "failed": [n for n, ok in pv if not ok]}
    out["accel"] = accel_selftest()
    # the pure self-tests again with accelerators on (dispatch layer)
    if vectors and os.path.exists("/repo/tests/vectors/cacophony.txt"):
        n, fails = cacophony_vectors()
        out["cacophony"] = {"n": n, "failed": fails[:10], "n_failed": len(fails)}
    out["ok"] = not out["prim_vectors"]["failed"] and (out["cacophony"] is None or out["cacophony"]["n_failed"] == 0)
    return out


if __name__ == "__main__":
    r = run_all()
    print(json.dumps(r, indent=1))
    sys.exit(0 if r["ok"] else 1)
