"""Independent primitives for the Noise reference model.

Pure-Python implementations written from the standards (RFC 8439, draft-irtf-cfrg-xchacha,
NIST SP 800-38D, FIPS 197, RFC 7748, SEC 1 / FIPS 186 P-256, RFC 2104, Noise rev 34 section 4.3),
plus optional ctypes accelerators to the system's OpenSSL 3 and libsodium. An accelerator is
enabled only after it agreed with the pure implementation in `selftest.accel_selftest()`.
Nothing here shares code with snow or with the Rust crates snow uses.
"""
import ctypes
import ctypes.util
import hashlib
import struct

MASK32 = 0xFFFFFFFF

# ------------------------------------------------------------------ hashes / HMAC / HKDF

HASHES = {
    "SHA256": (hashlib.sha256, 32, 64),
    "SHA512": (hashlib.sha512, 64, 128),
    "BLAKE2s": (hashlib.blake2s, 32, 64),
    "BLAKE2b": (hashlib.blake2b, 64, 128),
}


def hash_fn(name, data):
    return HASHES[name][0](data).digest()


def hashlen(name):
    return HASHES[name][1]


def blocklen(name):
    return HASHES[name][2]


def hmac_hash(name, key, data):
    """RFC 2104, written out (not Python's hmac module)."""
    f, _, bl = HASHES[name]
    if len(key) > bl:
        key = f(key).digest()
    key = key + b"\x00" * (bl - len(key))
    ipad = bytes(k ^ 0x36 for k in key)
    opad = bytes(k ^ 0x5C for k in key)
    return f(opad + f(ipad + data).digest()).digest()


def hkdf(name, ck, ikm, n):
    """Noise HKDF (spec 4.3): returns n outputs of HASHLEN bytes."""
    temp = hmac_hash(name, ck, ikm)
    o1 = hmac_hash(name, temp, b"\x01")
    if n == 1:
        return (o1,)
    o2 = hmac_hash(name, temp, o1 + b"\x02")
    if n == 2:
        return (o1, o2)
    o3 = hmac_hash(name, temp, o2 + b"\x03")
    return (o1, o2, o3)


# ------------------------------------------------------------------ ChaCha20 / Poly1305 (RFC 8439)


def _rotl(v, c):
    return ((v << c) & MASK32) | (v >> (32 - c))


def _qr(s, a, b, c, d):
    s[a] = (s[a] + s[b]) & MASK32
    s[d] = _rotl(s[d] ^ s[a], 16)
    s[c] = (s[c] + s[d]) & MASK32
    s[b] = _rotl(s[b] ^ s[c], 12)
    s[a] = (s[a] + s[b]) & MASK32
    s[d] = _rotl(s[d] ^ s[a], 8)
    s[c] = (s[c] + s[d]) & MASK32
    s[b] = _rotl(s[b] ^ s[c], 7)


def _chacha_rounds(s):
    for _ in range(10):
        _qr(s, 0, 4, 8, 12)
        _qr(s, 1, 5, 9, 13)
        _qr(s, 2, 6, 10, 14)
        _qr(s, 3, 7, 11, 15)
        _qr(s, 0, 5, 10, 15)
        _qr(s, 1, 6, 11, 12)
        _qr(s, 2, 7, 8, 13)
        _qr(s, 3, 4, 9, 14)


_SIGMA = struct.unpack("<4I", b"expand 32-byte k")


def chacha20_block(key, counter, nonce12):
    init = list(_SIGMA) + list(struct.unpack("<8I", key)) + [counter & MASK32] + list(struct.unpack("<3I", nonce12))
    s = list(init)
    _chacha_rounds(s)
    return struct.pack("<16I", *[(s[i] + init[i]) & MASK32 for i in range(16)])


def hchacha20(key, nonce16):
    s = list(_SIGMA) + list(struct.unpack("<8I", key)) + list(struct.unpack("<4I", nonce16))
    _chacha_rounds(s)
    return struct.pack("<8I", *(s[0:4] + s[12:16]))


def chacha20_xor(key, counter, nonce12, data):
    out = bytearray()
    for i in range(0, len(data), 64):
        ks = chacha20_block(key, counter + i // 64, nonce12)
        chunk = data[i:i + 64]
        out += bytes(a ^ b for a, b in zip(chunk, ks))
    return bytes(out)


def poly1305(key32, msg):
    r = int.from_bytes(key32[:16], "little") & 0x0FFFFFFC0FFFFFFC0FFFFFFC0FFFFFFF
    s = int.from_bytes(key32[16:], "little")
    p = (1 << 130) - 5
    acc = 0
    for i in range(0, len(msg), 16):
        blk = msg[i:i + 16]
        n = int.from_bytes(blk, "little") + (1 << (8 * len(blk)))
        acc = ((acc + n) * r) % p
    return ((acc + s) & ((1 << 128) - 1)).to_bytes(16, "little")


def _pad16(b):
    return b"\x00" * ((16 - len(b) % 16) % 16)


def _chachapoly_tag(otk, ad, ct):
    mac_data = ad + _pad16(ad) + ct + _pad16(ct) + struct.pack("<QQ", len(ad), len(ct))
    return poly1305(otk, mac_data)


def pure_chachapoly_encrypt(key, nonce12, ad, pt):
    otk = chacha20_block(key, 0, nonce12)[:32]
    ct = chacha20_xor(key, 1, nonce12, pt)
    return ct + _chachapoly_tag(otk, ad, ct)


def pure_chachapoly_decrypt(key, nonce12, ad, data):
    if len(data) < 16:
        return None
    ct, tag = data[:-16], data[-16:]
    otk = chacha20_block(key, 0, nonce12)[:32]
    if _chachapoly_tag(otk, ad, ct) != tag:
        return None
    return chacha20_xor(key, 1, nonce12, ct)


def pure_xchachapoly_encrypt(key, nonce24, ad, pt):
    sub = hchacha20(key, nonce24[:16])
    return pure_chachapoly_encrypt(sub, b"\x00" * 4 + nonce24[16:], ad, pt)


def pure_xchachapoly_decrypt(key, nonce24, ad, data):
    sub = hchacha20(key, nonce24[:16])
    return pure_chachapoly_decrypt(sub, b"\x00" * 4 + nonce24[16:], ad, data)


# ------------------------------------------------------------------ AES-256-GCM (FIPS 197, SP 800-38D)


def _make_sbox():
    # multiplicative inverse in GF(2^8) followed by the affine map
    def gmul(a, b):
        r = 0
        while b:
            if b & 1:
                r ^= a
            a <<= 1
            if a & 0x100:
                a ^= 0x11B
            b >>= 1
        return r

    inv = [0] * 256
    for a in range(1, 256):
        # a^254
        r, e, base = 1, 254, a
        while e:
            if e & 1:
                r = gmul(r, base)
            base = gmul(base, base)
            e >>= 1
        inv[a] = r
    sbox = []
    for a in range(256):
        x = inv[a]
        y = x
        for _ in range(4):
            x = ((x << 1) | (x >> 7)) & 0xFF
            y ^= x
        sbox.append(y ^ 0x63)
    return sbox, gmul


_SBOX, _gmul = _make_sbox()
_MUL2 = [_gmul(i, 2) for i in range(256)]
_MUL3 = [_gmul(i, 3) for i in range(256)]


def aes256_expand(key):
    assert len(key) == 32
    w = [list(key[i:i + 4]) for i in range(0, 32, 4)]
    rcon = 1
    for i in range(8, 60):
        t = list(w[i - 1])
        if i % 8 == 0:
            t = t[1:] + t[:1]
            t = [_SBOX[b] for b in t]
            t[0] ^= rcon
            rcon = _gmul(rcon, 2)
        elif i % 8 == 4:
            t = [_SBOX[b] for b in t]
        w.append([a ^ b for a, b in zip(w[i - 8], t)])
    return [sum((w[4 * r + c] for c in range(4)), []) for r in range(15)]


def aes256_encrypt_block(rk, block):
    s = [b ^ k for b, k in zip(block, rk[0])]
    for rnd in range(1, 15):
        s = [_SBOX[b] for b in s]
        # shift rows (state is column-major: index = 4*col + row)
        s = [s[(4 * ((c + r) % 4)) + r] for c in range(4) for r in range(4)]
        if rnd != 14:
            t = []
            for c in range(4):
                a0, a1, a2, a3 = s[4 * c:4 * c + 4]
                t += [
                    _MUL2[a0] ^ _MUL3[a1] ^ a2 ^ a3,
                    a0 ^ _MUL2[a1] ^ _MUL3[a2] ^ a3,
                    a0 ^ a1 ^ _MUL2[a2] ^ _MUL3[a3],
                    _MUL3[a0] ^ a1 ^ a2 ^ _MUL2[a3],
                ]
            s = t
        s = [b ^ k for b, k in zip(s, rk[rnd])]
    return bytes(s)


def _gf128_mul(x, y):
    # SP 800-38D algorithm 1, bit-reflected convention (integers are big-endian block values)
    R = 0xE1 << 120
    z = 0
    v = y
    for i in range(127, -1, -1):
        if (x >> i) & 1:
            z ^= v
        if v & 1:
            v = (v >> 1) ^ R
        else:
            v >>= 1
    return z


def _ghash(h, ad, ct):
    data = ad + _pad16(ad) + ct + _pad16(ct) + struct.pack(">QQ", len(ad) * 8, len(ct) * 8)
    y = 0
    for i in range(0, len(data), 16):
        y = _gf128_mul(y ^ int.from_bytes(data[i:i + 16], "big"), h)
    return y


def _gctr(rk, icb, data):
    out = bytearray()
    ctr = int.from_bytes(icb[12:], "big")
    pre = icb[:12]
    for i in range(0, len(data), 16):
        ks = aes256_encrypt_block(rk, pre + (ctr & MASK32).to_bytes(4, "big"))
        out += bytes(a ^ b for a, b in zip(data[i:i + 16], ks))
        ctr += 1
    return bytes(out)


def pure_aesgcm_encrypt(key, nonce12, ad, pt):
    rk = aes256_expand(key)
    h = int.from_bytes(aes256_encrypt_block(rk, b"\x00" * 16), "big")
    j0 = nonce12 + b"\x00\x00\x00\x01"
    ct = _gctr(rk, nonce12 + b"\x00\x00\x00\x02", pt)
    s = _ghash(h, ad, ct)
    tag = bytes(a ^ b for a, b in zip(s.to_bytes(16, "big"), aes256_encrypt_block(rk, j0)))
    return ct + tag


def pure_aesgcm_decrypt(key, nonce12, ad, data):
    if len(data) < 16:
        return None
    ct, tag = data[:-16], data[-16:]
    rk = aes256_expand(key)
    h = int.from_bytes(aes256_encrypt_block(rk, b"\x00" * 16), "big")
    j0 = nonce12 + b"\x00\x00\x00\x01"
    s = _ghash(h, ad, ct)
    exp = bytes(a ^ b for a, b in zip(s.to_bytes(16, "big"), aes256_encrypt_block(rk, j0)))
    if exp != tag:
        return None
    return _gctr(rk, nonce12 + b"\x00\x00\x00\x02", ct)


# ------------------------------------------------------------------ X25519 (RFC 7748)

_P25519 = 2**255 - 19
_A24 = 121665


def pure_x25519(k, u):
    kk = bytearray(k)
    kk[0] &= 248
    kk[31] &= 127
    kk[31] |= 64
    kn = int.from_bytes(kk, "little")
    uu = bytearray(u)
    uu[31] &= 127
    x1 = int.from_bytes(uu, "little") % _P25519
    x2, z2, x3, z3, swap = 1, 0, x1, 1, 0
    p = _P25519
    for t in range(254, -1, -1):
        kt = (kn >> t) & 1
        swap ^= kt
        if swap:
            x2, x3 = x3, x2
            z2, z3 = z3, z2
        swap = kt
        a = (x2 + z2) % p
        aa = a * a % p
        b = (x2 - z2) % p
        bb = b * b % p
        e = (aa - bb) % p
        c = (x3 + z3) % p
        d = (x3 - z3) % p
        da = d * a % p
        cb = c * b % p
        x3 = (da + cb) % p
        x3 = x3 * x3 % p
        z3 = (da - cb) % p
        z3 = x1 * z3 * z3 % p
        x2 = aa * bb % p
        z2 = e * (aa + _A24 * e) % p
    if swap:
        x2, x3 = x3, x2
        z2, z3 = z3, z2
    return (x2 * pow(z2, p - 2, p) % p).to_bytes(32, "little")


_BASE25519 = (9).to_bytes(32, "little")

# ------------------------------------------------------------------ P-256 (SEC 1, FIPS 186)

_PP = 0xFFFFFFFF00000001000000000000000000000000FFFFFFFFFFFFFFFFFFFFFFFF
_PN = 0xFFFFFFFF00000000FFFFFFFFFFFFFFFFBCE6FAADA7179E84F3B9CAC2FC632551
_PB = 0x5AC635D8AA3A93E7B3EBBD55769886BC651D06B0CC53B0F63BCE3C3E27D2604B
_PGX = 0x6B17D1F2E12C4247F8BCE6E563A440F277037D812DEB33A0F4A13945D898C296
_PGY = 0x4FE342E2FE1A7F9B8EE7EB4A7C0F9E162BCE33576B315ECECBB6406837BF51F5


def _p256_double(P):
    X, Y, Z = P
    if Z == 0 or Y == 0:
        return (0, 1, 0)
    p = _PP
    YY = Y * Y % p
    S = 4 * X * YY % p
    ZZ = Z * Z % p
    M = 3 * (X - ZZ) * (X + ZZ) % p  # a = -3
    X3 = (M * M - 2 * S) % p
    Y3 = (M * (S - X3) - 8 * YY * YY) % p
    Z3 = 2 * Y * Z % p
    return (X3, Y3, Z3)


def _p256_add(P, Q):
    if P[2] == 0:
        return Q
    if Q[2] == 0:
        return P
    p = _PP
    X1, Y1, Z1 = P
    X2, Y2, Z2 = Q
    Z1Z1 = Z1 * Z1 % p
    Z2Z2 = Z2 * Z2 % p
    U1 = X1 * Z2Z2 % p
    U2 = X2 * Z1Z1 % p
    S1 = Y1 * Z2 * Z2Z2 % p
    S2 = Y2 * Z1 * Z1Z1 % p
    if U1 == U2:
        if S1 != S2:
            return (0, 1, 0)
        return _p256_double(P)
    H = (U2 - U1) % p
    R = (S2 - S1) % p
    HH = H * H % p
    HHH = H * HH % p
    V = U1 * HH % p
    X3 = (R * R - HHH - 2 * V) % p
    Y3 = (R * (V - X3) - S1 * HHH) % p
    Z3 = H * Z1 * Z2 % p
    return (X3, Y3, Z3)


def _p256_mul(k, x, y):
    R = (0, 1, 0)
    Q = (x, y, 1)
    while k:
        if k & 1:
            R = _p256_add(R, Q)
        Q = _p256_double(Q)
        k >>= 1
    if R[2] == 0:
        return None
    zi = pow(R[2], _PP - 2, _PP)
    return (R[0] * zi * zi % _PP, R[1] * zi * zi * zi % _PP)


def p256_decode(pub65):
    """SEC1 uncompressed (also accepts compressed like the p256 crate's from_sec1_bytes?  No:
    snow documents 65-byte uncompressed keys; anything else is 'invalid' for the model)."""
    if len(pub65) != 65 or pub65[0] != 4:
        return None
    x = int.from_bytes(pub65[1:33], "big")
    y = int.from_bytes(pub65[33:], "big")
    if x >= _PP or y >= _PP:
        return None
    if (y * y - (x * x * x - 3 * x + _PB)) % _PP != 0:
        return None
    return (x, y)


def p256_valid_scalar(priv):
    k = int.from_bytes(priv, "big")
    return 0 < k < _PN


def pure_p256_pub(priv):
    k = int.from_bytes(priv, "big")
    if not 0 < k < _PN:
        return None
    x, y = _p256_mul(k, _PGX, _PGY)
    return b"\x04" + x.to_bytes(32, "big") + y.to_bytes(32, "big")


def pure_p256_dh(priv, pub65):
    k = int.from_bytes(priv, "big")
    if not 0 < k < _PN:
        return None
    pt = p256_decode(pub65)
    if pt is None:
        return None
    r = _p256_mul(k, pt[0], pt[1])
    if r is None:
        return None
    return r[0].to_bytes(32, "big")


# ------------------------------------------------------------------ accelerators (ctypes)


class _Accel:
    def __init__(self):
        self.crypto = None
        self.sodium = None
        self.enabled = {"aesgcm": False, "chachapoly": False, "xchachapoly": False, "x25519": False, "p256": False}
        self.notes = []
        try:
            self.crypto = ctypes.CDLL("libcrypto.so.3")
            self._setup_crypto()
        except Exception as e:  # pragma: no cover
            self.crypto = None
            self.notes.append("libcrypto unavailable: %r" % (e,))
        try:
            self.sodium = ctypes.CDLL("libsodium.so.23")
            if self.sodium.sodium_init() < 0:
                raise RuntimeError("sodium_init failed")
            self._setup_sodium()
        except Exception as e:  # pragma: no cover
            self.sodium = None
            self.notes.append("libsodium unavailable: %r" % (e,))

    def _setup_crypto(self):
        c = self.crypto
        vp = ctypes.c_void_p
        for name, res, args in [
            ("EVP_CIPHER_CTX_new", vp, []),
            ("EVP_CIPHER_CTX_free", None, [vp]),
            ("EVP_aes_256_gcm", vp, []),
            ("EVP_chacha20_poly1305", vp, []),
            ("EVP_EncryptInit_ex", ctypes.c_int, [vp, vp, vp, ctypes.c_char_p, ctypes.c_char_p]),
            ("EVP_DecryptInit_ex", ctypes.c_int, [vp, vp, vp, ctypes.c_char_p, ctypes.c_char_p]),
            ("EVP_EncryptUpdate", ctypes.c_int, [vp, ctypes.c_char_p, ctypes.POINTER(ctypes.c_int), ctypes.c_char_p, ctypes.c_int]),
            ("EVP_DecryptUpdate", ctypes.c_int, [vp, ctypes.c_char_p, ctypes.POINTER(ctypes.c_int), ctypes.c_char_p, ctypes.c_int]),
            ("EVP_EncryptFinal_ex", ctypes.c_int, [vp, ctypes.c_char_p, ctypes.POINTER(ctypes.c_int)]),
            ("EVP_DecryptFinal_ex", ctypes.c_int, [vp, ctypes.c_char_p, ctypes.POINTER(ctypes.c_int)]),
            ("EVP_CIPHER_CTX_ctrl", ctypes.c_int, [vp, ctypes.c_int, ctypes.c_int, ctypes.c_char_p]),
            ("EC_GROUP_new_by_curve_name", vp, [ctypes.c_int]),
            ("EC_POINT_new", vp, [vp]),
            ("EC_POINT_free", None, [vp]),
            ("EC_POINT_oct2point", ctypes.c_int, [vp, vp, ctypes.c_char_p, ctypes.c_size_t, vp]),
            ("EC_POINT_point2oct", ctypes.c_size_t, [vp, vp, ctypes.c_int, ctypes.c_char_p, ctypes.c_size_t, vp]),
            ("EC_POINT_mul", ctypes.c_int, [vp, vp, vp, vp, vp, vp]),
            ("EC_POINT_is_at_infinity", ctypes.c_int, [vp, vp]),
            ("BN_bin2bn", vp, [ctypes.c_char_p, ctypes.c_int, vp]),
            ("BN_free", None, [vp]),
        ]:
            f = getattr(c, name)
            f.restype = res
            f.argtypes = args
        self._aes = c.EVP_aes_256_gcm()
        self._chacha = c.EVP_chacha20_poly1305()
        self._p256grp = c.EC_GROUP_new_by_curve_name(415)

    def _setup_sodium(self):
        s = self.sodium
        ull = ctypes.c_ulonglong
        cp = ctypes.c_char_p
        s.crypto_aead_xchacha20poly1305_ietf_encrypt.argtypes = [cp, ctypes.POINTER(ull), cp, ull, cp, ull, cp, cp, cp]
        s.crypto_aead_xchacha20poly1305_ietf_decrypt.argtypes = [cp, ctypes.POINTER(ull), cp, cp, ull, cp, ull, cp, cp]
        s.crypto_scalarmult_curve25519.argtypes = [cp, cp, cp]
        s.crypto_scalarmult_curve25519_base.argtypes = [cp, cp]

    # --- OpenSSL AEAD
    def evp_encrypt(self, cipher, key, nonce12, ad, pt):
        c = self.crypto
        ctx = c.EVP_CIPHER_CTX_new()
        try:
            ok = c.EVP_EncryptInit_ex(ctx, cipher, None, None, None)
            ok &= c.EVP_CIPHER_CTX_ctrl(ctx, 0x9, 12, None)
            ok &= c.EVP_EncryptInit_ex(ctx, None, None, key, nonce12)
            outl = ctypes.c_int(0)
            if ad:
                ok &= c.EVP_EncryptUpdate(ctx, None, ctypes.byref(outl), ad, len(ad))
            buf = ctypes.create_string_buffer(len(pt) + 16)
            n = 0
            if pt:
                ok &= c.EVP_EncryptUpdate(ctx, buf, ctypes.byref(outl), pt, len(pt))
                n = outl.value
            fin = ctypes.create_string_buffer(16)
            ok &= c.EVP_EncryptFinal_ex(ctx, fin, ctypes.byref(outl))
            tag = ctypes.create_string_buffer(16)
            ok &= c.EVP_CIPHER_CTX_ctrl(ctx, 0x10, 16, tag)
            if not ok or n != len(pt):
                raise RuntimeError("EVP encrypt failed")
            return buf.raw[:n] + tag.raw
        finally:
            c.EVP_CIPHER_CTX_free(ctx)

    def evp_decrypt(self, cipher, key, nonce12, ad, data):
        if len(data) < 16:
            return None
        c = self.crypto
        ct, tag = data[:-16], data[-16:]
        ctx = c.EVP_CIPHER_CTX_new()
        try:
            ok = c.EVP_DecryptInit_ex(ctx, cipher, None, None, None)
            ok &= c.EVP_CIPHER_CTX_ctrl(ctx, 0x9, 12, None)
            ok &= c.EVP_DecryptInit_ex(ctx, None, None, key, nonce12)
            outl = ctypes.c_int(0)
            if ad:
                ok &= c.EVP_DecryptUpdate(ctx, None, ctypes.byref(outl), ad, len(ad))
            buf = ctypes.create_string_buffer(len(ct) + 16)
            n = 0
            if ct:
                ok &= c.EVP_DecryptUpdate(ctx, buf, ctypes.byref(outl), ct, len(ct))
                n = outl.value
            ok &= c.EVP_CIPHER_CTX_ctrl(ctx, 0x11, 16, tag)
            if not ok:
                raise RuntimeError("EVP decrypt setup failed")
            fin = ctypes.create_string_buffer(16)
            r = c.EVP_DecryptFinal_ex(ctx, fin, ctypes.byref(outl))
            if r <= 0:
                return None
            return buf.raw[:n]
        finally:
            c.EVP_CIPHER_CTX_free(ctx)

    # --- libsodium
    def xchacha_encrypt(self, key, nonce24, ad, pt):
        out = ctypes.create_string_buffer(len(pt) + 16)
        outl = ctypes.c_ulonglong(0)
        r = self.sodium.crypto_aead_xchacha20poly1305_ietf_encrypt(out, ctypes.byref(outl), pt, len(pt), ad, len(ad), None, nonce24, key)
        if r != 0 or outl.value != len(pt) + 16:
            raise RuntimeError("sodium encrypt failed")
        return out.raw

    def xchacha_decrypt(self, key, nonce24, ad, data):
        if len(data) < 16:
            return None
        out = ctypes.create_string_buffer(max(1, len(data) - 16))
        outl = ctypes.c_ulonglong(0)
        r = self.sodium.crypto_aead_xchacha20poly1305_ietf_decrypt(out, ctypes.byref(outl), None, data, len(data), ad, len(ad), nonce24, key)
        if r != 0:
            return None
        return out.raw[:outl.value]

    def x25519(self, k, u):
        out = ctypes.create_string_buffer(32)
        # libsodium returns -1 for an all-zero result but still writes it
        self.sodium.crypto_scalarmult_curve25519(out, k, u)
        return out.raw

    def x25519_base(self, k):
        out = ctypes.create_string_buffer(32)
        self.sodium.crypto_scalarmult_curve25519_base(out, k)
        return out.raw

    # --- OpenSSL P-256
    def p256_mul(self, priv, pub65):
        """priv * point(pub65) (or base point if pub65 is None) -> 65-byte encoding or None"""
        c = self.crypto
        g = self._p256grp
        k = int.from_bytes(priv, "big")
        if not 0 < k < _PN:
            return None
        bn = c.BN_bin2bn(priv, len(priv), None)
        res = c.EC_POINT_new(g)
        pt = None
        try:
            if pub65 is None:
                ok = c.EC_POINT_mul(g, res, bn, None, None, None)
            else:
                if len(pub65) != 65 or pub65[0] != 4:
                    return None
                pt = c.EC_POINT_new(g)
                if c.EC_POINT_oct2point(g, pt, pub65, len(pub65), None) != 1:
                    return None
                ok = c.EC_POINT_mul(g, res, None, pt, bn, None)
            if ok != 1 or c.EC_POINT_is_at_infinity(g, res):
                return None
            buf = ctypes.create_string_buffer(65)
            n = c.EC_POINT_point2oct(g, res, 4, buf, 65, None)
            if n != 65:
                return None
            return buf.raw
        finally:
            c.BN_free(bn)
            c.EC_POINT_free(res)
            if pt:
                c.EC_POINT_free(pt)


ACCEL = _Accel()

# ------------------------------------------------------------------ public dispatch


def nonce_bytes(cipher, n):
    if cipher == "ChaChaPoly":
        return b"\x00" * 4 + struct.pack("<Q", n)
    if cipher == "AESGCM":
        return b"\x00" * 4 + struct.pack(">Q", n)
    if cipher == "XChaChaPoly":
        return b"\x00" * 16 + struct.pack("<Q", n)
    raise ValueError(cipher)


def aead_encrypt(cipher, key, n, ad, pt, pure=False):
    nb = nonce_bytes(cipher, n)
    en = ACCEL.enabled
    if cipher == "ChaChaPoly":
        if en["chachapoly"] and not pure:
            return ACCEL.evp_encrypt(ACCEL._chacha, key, nb, ad, pt)
        return pure_chachapoly_encrypt(key, nb, ad, pt)
    if cipher == "AESGCM":
        if en["aesgcm"] and not pure:
            return ACCEL.evp_encrypt(ACCEL._aes, key, nb, ad, pt)
        return pure_aesgcm_encrypt(key, nb, ad, pt)
    if en["xchachapoly"] and not pure:
        return ACCEL.xchacha_encrypt(key, nb, ad, pt)
    return pure_xchachapoly_encrypt(key, nb, ad, pt)


def aead_decrypt(cipher, key, n, ad, data, pure=False):
    """returns plaintext or None"""
    nb = nonce_bytes(cipher, n)
    en = ACCEL.enabled
    if cipher == "ChaChaPoly":
        if en["chachapoly"] and not pure:
            return ACCEL.evp_decrypt(ACCEL._chacha, key, nb, ad, data)
        return pure_chachapoly_decrypt(key, nb, ad, data)
    if cipher == "AESGCM":
        if en["aesgcm"] and not pure:
            return ACCEL.evp_decrypt(ACCEL._aes, key, nb, ad, data)
        return pure_aesgcm_decrypt(key, nb, ad, data)
    if en["xchachapoly"] and not pure:
        return ACCEL.xchacha_decrypt(key, nb, ad, data)
    return pure_xchachapoly_decrypt(key, nb, ad, data)


def rekey(cipher, key):
    return aead_encrypt(cipher, key, 2**64 - 1, b"", b"\x00" * 32)[:32]


DH_PUBLEN = {"25519": 32, "P256": 65}
DH_LEN = {"25519": 32, "P256": 32}

_pub_cache = {}
_dh_cache = {}


def dh_pub(dh, priv, pure=False):
    """public key of a 32-byte private key; None if the key is not valid for the DH"""
    key = (dh, priv)
    if not pure and key in _pub_cache:
        return _pub_cache[key]
    if dh == "25519":
        r = ACCEL.x25519_base(priv) if (ACCEL.enabled["x25519"] and not pure) else pure_x25519(priv, _BASE25519)
    else:
        r = ACCEL.p256_mul(priv, None) if (ACCEL.enabled["p256"] and not pure) else pure_p256_pub(priv)
    if not pure:
        if len(_pub_cache) > 200000:
            _pub_cache.clear()
        _pub_cache[key] = r
    return r


def dh_calc(dh, priv, pub, pure=False):
    """DH output (32 bytes) or None when the DH function reports an error (P-256 invalid point)."""
    key = (dh, priv, pub)
    if not pure and key in _dh_cache:
        return _dh_cache[key]
    if dh == "25519":
        r = ACCEL.x25519(priv, pub) if (ACCEL.enabled["x25519"] and not pure) else pure_x25519(priv, pub)
    else:
        if ACCEL.enabled["p256"] and not pure:
            e = ACCEL.p256_mul(priv, pub)
            r = e[1:33] if e else None
        else:
            r = pure_p256_dh(priv, pub)
    if not pure:
        if len(_dh_cache) > 200000:
            _dh_cache.clear()
        _dh_cache[key] = r
    return r
