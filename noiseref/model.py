"""Executable transcription of the Noise specification rev 34 (sections 5.1-5.3, 9, 11.3) with
snow's two documented extensions (P-256 keys are 65-byte SEC1 uncompressed, DH output the 32-byte
x coordinate; XChaChaPoly nonce = 16 zero bytes || 64-bit LE counter). No code shared with snow."""
from . import prims
from .patterns import PATTERNS, parse_name_simple, tokens_for

MAXNONCE = 2**64 - 1
MAXMSG = 65535


class Reject(Exception):
    """the model refuses the operation (reason in args[0])"""


class CipherState:
    __slots__ = ("cipher", "k", "n")

    def __init__(self, cipher, k=None, n=0):
        self.cipher, self.k, self.n = cipher, k, n

    def clone(self):
        return CipherState(self.cipher, self.k, self.n)

    def has_key(self):
        return self.k is not None

    def encrypt_with_ad(self, ad, pt):
        if self.k is None:
            return pt
        if self.n == MAXNONCE:
            raise Reject("exhausted")
        ct = prims.aead_encrypt(self.cipher, self.k, self.n, ad, pt)
        self.n += 1
        return ct

    def decrypt_with_ad(self, ad, ct):
        if self.k is None:
            return ct
        if self.n == MAXNONCE:
            raise Reject("exhausted")
        pt = prims.aead_decrypt(self.cipher, self.k, self.n, ad, ct)
        if pt is None:
            raise Reject("decrypt")
        self.n += 1
        return pt

    def rekey(self):
        self.k = prims.rekey(self.cipher, self.k)


class SymmetricState:
    __slots__ = ("hash", "h", "ck", "cs")

    def __init__(self, hash_, cipher, name_bytes):
        self.hash = hash_
        hl = prims.hashlen(hash_)
        if len(name_bytes) <= hl:
            self.h = name_bytes + b"\x00" * (hl - len(name_bytes))
        else:
            self.h = prims.hash_fn(hash_, name_bytes)
        self.ck = self.h
        self.cs = CipherState(cipher)

    def clone(self):
        o = SymmetricState.__new__(SymmetricState)
        o.hash, o.h, o.ck, o.cs = self.hash, self.h, self.ck, self.cs.clone()
        return o

    def mix_key(self, ikm):
        self.ck, temp_k = prims.hkdf(self.hash, self.ck, ikm, 2)
        self.cs = CipherState(self.cs.cipher, temp_k[:32], 0)

    def mix_hash(self, data):
        self.h = prims.hash_fn(self.hash, self.h + data)

    def mix_key_and_hash(self, ikm):
        self.ck, temp_h, temp_k = prims.hkdf(self.hash, self.ck, ikm, 3)
        self.mix_hash(temp_h)
        self.cs = CipherState(self.cs.cipher, temp_k[:32], 0)

    def encrypt_and_hash(self, pt):
        ct = self.cs.encrypt_with_ad(self.h, pt)
        self.mix_hash(ct)
        return ct

    def decrypt_and_hash(self, ct):
        pt = self.cs.decrypt_with_ad(self.h, ct)
        self.mix_hash(ct)
        return pt

    def split(self):
        k1, k2 = prims.hkdf(self.hash, self.ck, b"", 2)
        return CipherState(self.cs.cipher, k1[:32], 0), CipherState(self.cs.cipher, k2[:32], 0)


def _resolve_psk_tokens(msgs, psks):
    """replace each 'psk' token by ('psk', N)"""
    out = []
    for i, toks in enumerate(msgs):
        new = []
        for j, t in enumerate(toks):
            if t == "psk":
                if i == 0 and j == 0 and 0 in psks:
                    new.append(("psk", 0))
                else:
                    new.append(("psk", i + 1))
            else:
                new.append(t)
        out.append(new)
    return out



class HandshakeState:
    """One party. `name` is the verbatim protocol name (str). Keys are raw bytes.
    psks: dict index -> 32 bytes. Ephemerals are passed to write_message (32 raw bytes)."""

    def __init__(self, name, initiator, s=None, rs=None, psks=None, prologue=b"", parsed=None):
        self.p = parsed or parse_name_simple(name)
        self.initiator = initiator
        self.s = s
        self.s_pub = prims.dh_pub(self.p.dh, s) if s is not None else None
        self.e = None
        self.e_pub = None
        self.rs = rs
        self.re = None
        self.psks = dict(psks or {})
        self.msgs = _resolve_psk_tokens(tokens_for(self.p.pattern, self.p.psks), self.p.psks)
        self.pos = 0
        self.ss = SymmetricState(self.p.hash, self.p.cipher, name.encode("utf-8"))
        self.ss.mix_hash(prologue)
        pat = PATTERNS[self.p.pattern]
        for t in pat["pre_i"]:
            assert t == "s"
            self.ss.mix_hash(self.s_pub if initiator else self._need(self.rs, "rs"))
        for t in pat["pre_r"]:
            assert t == "s"
            self.ss.mix_hash(self._need(self.rs, "rs") if initiator else self.s_pub)
        self.c_i = None  # initiator -> responder
        self.c_r = None
        self.last_write_encrypted = False

    @staticmethod
    def _need(v, what):
        if v is None:
            raise Reject("missing " + what)
        return v

    def clone(self):
        o = HandshakeState.__new__(HandshakeState)
        o.__dict__.update(self.__dict__)
        o.psks = dict(self.psks)
        o.ss = self.ss.clone()
        return o

    # --- observations
    @property
    def finished(self):
        return self.pos == len(self.msgs)

    @property
    def my_turn(self):
        # the turn indicator keeps flipping even after the last message
        return (self.pos % 2 == 0) == self.initiator

    @property
    def h(self):
        return self.ss.h

    def has_key(self):
        return self.ss.cs.has_key()

    def _dh(self, tok):
        i = self.initiator
        if tok == "ee":
            priv, pub = self.e, self.re
        elif tok == "ss":
            priv, pub = self.s, self.rs
        elif tok == "es":
            priv, pub = (self.e, self.rs) if i else (self.s, self.re)
        elif tok == "se":
            priv, pub = (self.s, self.re) if i else (self.e, self.rs)
        else:
            raise AssertionError(tok)
        if priv is None or pub is None:
            raise Reject("missing key for " + tok)
        out = prims.dh_calc(self.p.dh, priv, pub)
        if out is None:
            raise Reject("dh")
        return out

    def write_message(self, payload, e_priv=None):
        """returns the message bytes; raises Reject; state unchanged when Reject is raised"""
        if self.finished or not self.my_turn:
            raise Reject("state")
        w = self.clone()
        buf = b""
        for t in w.msgs[w.pos]:
            if t == "e":
                if e_priv is None:
                    raise Reject("no ephemeral supplied")
                w.e = e_priv
                w.e_pub = prims.dh_pub(w.p.dh, e_priv)
                if w.e_pub is None:
                    raise Reject("invalid ephemeral scalar")
                buf += w.e_pub
                w.ss.mix_hash(w.e_pub)
                if w.p.is_psk:
                    w.ss.mix_key(w.e_pub)
            elif t == "s":
                buf += w.ss.encrypt_and_hash(w._need(w.s_pub, "s"))
            elif isinstance(t, tuple):
                if t[1] not in w.psks:
                    raise Reject("missing psk")
                w.ss.mix_key_and_hash(w.psks[t[1]])
            else:
                w.ss.mix_key(w._dh(t))
        w.last_write_encrypted = w.ss.cs.has_key()
        buf += w.ss.encrypt_and_hash(payload)
        if len(buf) > MAXMSG:
            raise Reject("too long")
        w.pos += 1
        if w.finished:
            w.c_i, w.c_r = w.ss.split()
        self.__dict__.update(w.__dict__)
        return buf


    def read_message(self, msg):
        """returns the payload; raises Reject; state unchanged when Reject is raised"""
        if len(msg) > MAXMSG:
            raise Reject("too long")
        if self.finished or self.my_turn:
            raise Reject("state")
        w = self.clone()
        publen = prims.DH_PUBLEN[w.p.dh]
        off = 0
        for t in w.msgs[w.pos]:
            if t == "e":
                if len(msg) - off < publen:
                    raise Reject("short")
                w.re = msg[off:off + publen]
                off += publen
                w.ss.mix_hash(w.re)
                if w.p.is_psk:
                    w.ss.mix_key(w.re)
            elif t == "s":
                ln = publen + (16 if w.ss.cs.has_key() else 0)
                if len(msg) - off < ln:
                    raise Reject("short")
                w.rs = w.ss.decrypt_and_hash(msg[off:off + ln])
                off += ln
            elif isinstance(t, tuple):
                if t[1] not in w.psks:
                    raise Reject("missing psk")
                w.ss.mix_key_and_hash(w.psks[t[1]])
            else:
                w.ss.mix_key(w._dh(t))
        rest = msg[off:]
        if w.ss.cs.has_key() and len(rest) < 16:
            raise Reject("short")
        payload = w.ss.decrypt_and_hash(rest)
        w.pos += 1
        if w.finished:
            w.c_i, w.c_r = w.ss.split()
        self.__dict__.update(w.__dict__)
        return payload




class Transport:
    """Transport phase of one party: two CipherStates (spec 5.3 step: Split())."""

    def __init__(self, hs):
        assert hs.finished
        self.initiator = hs.initiator
        self.oneway = hs.p.oneway
        self.c_i = hs.c_i.clone()
        self.c_r = hs.c_r.clone()
        self.rs = hs.rs
        self.h = hs.h

    def clone(self):
        o = Transport.__new__(Transport)
        o.__dict__.update(self.__dict__)
        o.c_i = self.c_i.clone()
        o.c_r = self.c_r.clone()
        return o

    @property
    def tx(self):
        return self.c_i if self.initiator else self.c_r

    @property
    def rx(self):
        return self.c_r if self.initiator else self.c_i
