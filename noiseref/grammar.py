"""Independent recogniser for the Noise protocol-name grammar (spec rev 34 section 8), used by C13.
Written from the specification text; shares nothing with snow's parser."""
from .patterns import PATTERN_NAMES

DH_FIELDS = {"25519": "Curve25519", "448": "Curve448", "P256": "P256"}
CIPHER_FIELDS = {"ChaChaPoly": "ChaChaPoly", "AESGCM": "AESGCM", "XChaChaPoly": "XChaChaPoly"}
HASH_FIELDS = {"SHA256": "SHA256", "SHA512": "SHA512", "BLAKE2s": "Blake2s", "BLAKE2b": "Blake2b"}

FEATURES = {
    "A": {"p256": True, "xchacha": True, "hfs": False},
    "B": {"p256": True, "xchacha": True, "hfs": True},
    "D": {"p256": False, "xchacha": False, "hfs": False},
    "M": {"p256": True, "xchacha": True, "hfs": False},
}


class Verdict:
    """kind: 'valid' | 'invalid' | 'unspecified' ; fields when valid/unspecified-but-parseable"""

    def __init__(self, kind, pattern=None, mods=None, dh=None, cipher=None, hash_=None, kem=None, why=""):
        self.kind, self.pattern, self.mods, self.dh, self.cipher, self.hash, self.kem, self.why = kind, pattern, mods, dh, cipher, hash_, kem, why


def recognise(name, cfg="A"):
    feat = FEATURES[cfg]
    parts = name.split("_")
    if len(parts) != 5:
        return Verdict("invalid", why="needs exactly five '_'-separated fields")
    base, hs, dh, cipher, hash_ = parts
    if base != "Noise":
        return Verdict("invalid", why="base")
    # pattern: the longest pattern name that prefixes the handshake field
    pat = None
    for p in sorted(PATTERN_NAMES, key=len, reverse=True):
        if hs.startswith(p):
            pat = p
            break
    if pat is None:
        return Verdict("invalid", why="pattern")
    rest = hs[len(pat):]
    mods = []
    raw = []
    unspecified = False
    if rest:
        for m in rest.split("+"):
            if m == "fallback":
                mod = "fallback"
            elif m == "hfs" and feat["hfs"]:
                mod = "hfs"
            elif m.startswith("psk"):
                num = m[3:]
                if not num or not num.isascii() or not num.isdigit():
                    # '+5', '-1', ' 1', unicode digits, empty: not a numeral
                    if num.startswith("+") and num[1:].isascii() and num[1:].isdigit():
                        return Verdict("invalid", why="cannot occur: '+' splits modifiers")
                    return Verdict("invalid", why="psk numeral")
                val = int(num)
                if val > 255:
                    return Verdict("invalid", why="psk numeral out of any range")
                if len(num) > 1 and num[0] == "0" or val > 9:
                    unspecified = True  # numeral syntax beyond psk0..psk9 is not defined by the spec
                mod = "psk%d" % val
            else:
                return Verdict("invalid", why="modifier")
            if m in raw:
                return Verdict("invalid", why="the same modifier twice (literally)")
            if mod in mods:
                if unspecified:
                    return Verdict("unspecified", why="duplicate through a non-canonical numeral")
                return Verdict("invalid", why="duplicate modifier")
            mods.append(mod)
            raw.append(m)
    kem = None
    if feat["hfs"]:
        if "+" in dh:
            dh, kemname = dh.split("+", 1)
            if kemname != "Kyber1024":
                return Verdict("invalid", why="kem")
            kem = "Kyber1024"
        if ("hfs" in mods) != (kem is not None):
            return Verdict("invalid", why="hfs needs a KEM and vice versa")
    if dh not in DH_FIELDS or (dh == "P256" and not feat["p256"]):
        return Verdict("invalid", why="dh")
    if cipher not in CIPHER_FIELDS or (cipher == "XChaChaPoly" and not feat["xchacha"]):
        return Verdict("invalid", why="cipher")
    if hash_ not in HASH_FIELDS:
        return Verdict("invalid", why="hash")
    return Verdict("unspecified" if unspecified else "valid", pat, mods, DH_FIELDS[dh], CIPHER_FIELDS[cipher], HASH_FIELDS[hash_], kem)
