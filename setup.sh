#!/bin/sh
# Offline setup: build the driver configuration(s) from /repo's working tree and self-test the oracle.
set -e
cd "$(dirname "$0")"
export CARGO_NET_OFFLINE=true
python3 - <<'PY'
import sys
sys.path.insert(0, ".")
from vmon import runner
from noiseref import selftest
r = selftest.run_all(vectors=True)
print("oracle self-test:", {k: r[k] for k in ("prim_vectors", "accel", "cacophony", "ok")})
if not r["ok"]:
    sys.exit(1)
print("driver A:", runner.build_driver("A", quiet=False))
PY
